#!/usr/bin/env python3
"""Regenerates /verif/MANIFEST.json. Edit CLAIMED / texts here, run, commit."""
import json
NA = {
 "C01":"pure function of (policy, input bytes): no schedule, stream fault, clock or history can change which elements are emitted; quantified over inputs/configurations only, so simulation adds nothing (DESIGN §4)",
 "C02":"pure function of (policy, input): attribute filtering has no schedule/fault/interleaving dimension (DESIGN §4)",
 "C03":"pure function of the URL string and URL options; no nondeterminism or fault surface (DESIGN §4)",
 "C04":"pure function of the input for two fixed policies; oracle is an HTML5 re-parse, an input-space technique (DESIGN §4)",
 "C05":"pure function of (policy, input); no schedule or fault involved (DESIGN §4)",
 "C06":"equation between two tokenisations of pure outputs; no schedule or fault involved (DESIGN §4)",
 "C07":"pure; the only history-flavoured part (rules accumulate across builder calls) is exercised under C17 (DESIGN §4)",
 "C08":"pure; the skip counter/flag is per-call local state, its independence from other callers is what C13 checks (DESIGN §4)",
 "C09":"pure function of (policy, input) (DESIGN §4)",
 "C10":"pure function of the style string and rule set (DESIGN §4)",
 "C11":"pure function of the attribute list and five booleans (DESIGN §4)",
 "C12":"pure function of the attribute list and options (DESIGN §4)",
 "C14":"CPU time / panics of a pure computation; the library reads no clock, blocks on nothing and has no timers, so a simulated clock or liveness-after-faults has nothing to decide; panics that appear only under a schedule or fault are reported under C13/C15/C16 (DESIGN §4)",
 "C18":"pure predicates on strings (DESIGN §4)",
 "C19":"eleven regular expressions; pure (DESIGN §4)",
 "C20":"equation between two pure calls; applying twice is not message duplication (DESIGN §4)",
}
PENDING = {
 "C13":"check under construction in this session (DESIGN §3.1); will be claimed when it runs end to end",
 "C15":"check under construction in this session (DESIGN §3.2); will be claimed when it runs end to end",
 "C16":"check under construction",
 "C17":"check under construction in this session (DESIGN §3.4); will be claimed when it runs end to end",
}
CHECKS = {
 "C16": dict(level="fault_enumeration", ref="DESIGN.md §3.3",
   text="For each seeded case (policy recipe, input, chunk schedule) every destination write index x 5 fault kinds x destination kinds (WriteString-capable, Write-only, and flushable variants) with varied error values (sentinel, io.EOF, io.ErrShortWrite, EAGAIN, deadline ...), every source offset x {error alone, error with data} x 6 error kinds (incl. an error wrapping io.EOF) x both streaming entry points, and sampled combined faults are executed against the real library; oracles: non-nil error, zero write calls after the failed one, accepted bytes are a prefix of the fault-free output, empty buffer from SanitizeReader. Exhaustive over fault positions within a case, sampled over cases. Found and led to the repair of a genuine defect (unchecked comment write, /repo 5b7d9ba).",
   note="Trusted: the simulated reader/writer produce only contract-legal behaviour; fault-free reference comes from the same build; cases are sampled, a clean batch is evidence not proof.",
   tech="deterministic simulation: seeded fault enumeration over simulated io.Reader/io.Writer, plan minimisation, fresh-process replay"),
 "C15": dict(level="exploration", ref="DESIGN.md §3.2",
   text="Seeded cases (policy recipe, input) are pushed through all four entry points under many chunk schedules of a simulated source (1 byte, fixed, random with empty reads, an empty read before every chunk, data+EOF, scratch-space scribbling, every two-chunk split position when len<=256 - that sub-space is exhaustive), four destination kinds, early EOF at sampled offsets, blank inputs, a canary behind the caller's []byte, a retention check (results re-read after later unrelated calls), giant single tokens up to 1.1 MB, and both CLI binaries rebuilt from the tree and fed over a pipe in scheduled chunks (up to 200 KB of stdin); oracle: byte equality with Sanitize on the same build, and with an independent transcription of the documented CLI policies.",
   note="Trusted: Sanitize on the same tree as the reference for non-blank inputs; cli_policies.go transcription; sampled over cases.",
   tech="deterministic simulation: seeded chunk/EOF schedules over simulated io.Reader/io.Writer and CLI stdin, differential oracle, plan minimisation"),
 "C13": dict(level="exploration", ref="DESIGN.md §3.1",
   text="2-6 caller tasks share one finished policy; a seeded baton scheduler (uniform with stickiness, or PCT) serialises them at every Read, Write, user callback, map-iteration point and - through instrumentation of the scratch copy - every sync/atomic use inside the library (never inside a lock-holding region); map order itself is a simulator decision, also during construction. The baton uses raw syscalls that the Go race runtime cannot see, so ThreadSanitizer reports any conflicting access between two calls on a serialised, replayable execution; every operation's result is compared with the same operation run alone on a fresh policy under canonical map order, returned values are re-read after all calls finished, the shared policy's later behaviour is compared with a fresh policy's, and sampled plans are re-executed alone in a pristine process (results must not depend on earlier calls anywhere in the process). Injected faults: failing/short destination writes and failing sources in one seeded task, and (6 % of plans) a caller-supplied URL policy that panics on one host; calls that stop returning after such a fault are reported (call-never-returns) when each of them returns alone on a fresh policy.",
   note="Trusted: Go race runtime; instrumentation of range-over-map headers and sync calls; raw syscalls stay un-instrumented (canary checked in every process). sync.Pool edges inside regexp can mask a conflicting pair in one execution (measured, DESIGN 10.2), so a data-race class gets a few fresh-process attempts of the identical schedule. Sampled schedules, not exhaustive.",
   tech="deterministic simulation: seeded baton scheduler over real goroutines + race runtime as exact per-execution oracle, controlled map order, differential reference"),
 "C17": dict(level="exploration", ref="DESIGN.md §3.4",
   text="Histories of builder steps over 1-3 policy instances (chains split into separately scheduled steps, builders reused for a second scope call, rule piles, same-slot collisions, toggled switches) are interleaved (optionally with Sanitize calls between steps), permuted within commutation classes, case-mutated and reduced by a small executable model of the switch-like options; each resulting policy is compared behaviourally (Sanitize on ~550 probe inputs derived from the rule set) with the same rule set built alone in canonical order from lower-case names; instances are re-fingerprinted after other instances and fresh shipped policies are extended, and sampled plans are re-executed alone in a pristine process. Found and led to the repair of a genuine defect (registration lost by AllowURLSchemesMatching on a zero-value Policy, /repo e017f61).",
   note="Trusted: the small switch model (write sets from doc comments); behavioural probes only see differences the probe inputs exercise.",
   tech="deterministic simulation: seeded interleaving/permutation of builder-call histories, refinement against canonical build"),
}
import sys
CLAIMED = sys.argv[1].split(",") if len(sys.argv) > 1 else ["C16"]
na = dict(NA)
for k, v in PENDING.items():
    if k not in CLAIMED:
        na[k] = v
m = {
 "version": 1,
 "setup_cmd": "/verif/bin/setup",
 "hooks": {
  "guard": "verif",
  "enable": "No hook is committed to /repo. Every check copies /repo's working tree to a mktemp scratch directory, adds the package verifsim there and rewrites the headers of range-over-map loops (instrument/main.go) so that map iteration order is a simulator decision; readers, writers and callbacks are public-API seams. The build tag 'verif' is reserved but unused.",
  "baseline_off_cmd": "cd /repo && go test -json -vet=off -count=1 -timeout 25m ./...",
  "source_commits": [],
  "add_only": True
 },
 "engines": [
  {"name": "simrun", "path": "/verif/sim/simrun", "serves_properties": sorted(CLAIMED), "kind_free_text": "deterministic simulator: seeded plans, simulated io.Reader/io.Writer with fault schedules, baton scheduler, builder-history scheduler, plan-level minimiser, fresh-process replay"},
  {"name": "instrument", "path": "/verif/instrument", "serves_properties": sorted(CLAIMED), "kind_free_text": "go/ast+go/types rewrite of range-over-map headers in a scratch copy (map-order seam)"}
 ],
 "checks": [
  {
   "property_id": p,
   "quick_cmd": f"/verif/bin/check {p} quick",
   "thorough_cmd": f"/verif/bin/check {p} thorough",
   "evidence_file": f"/verif/evidence/{p}.json",
   "replay_cmd_template": "/verif/bin/check replay {path}",
   "engine": "simrun",
   "level_claimed": {"category": CHECKS[p]["level"], "text": CHECKS[p]["text"], "design_ref": CHECKS[p]["ref"]},
   "level_note": CHECKS[p]["note"],
   "technique": CHECKS[p]["tech"],
  } for p in sorted(CLAIMED)
 ],
 "notes": "See DESIGN.md. Exit codes of every check: 0 held, 1 VIOLATION, 2 machinery trouble. VERIF_SEED selects the stream; VERIF_BUDGET (e.g. 10m) the thorough exploration time; VERIF_REPO (sensitivity work only) an alternative tree.",
 "not_applicable": [{"property_id": k, "reason": v} for k, v in sorted(na.items())]
}
json.dump(m, open('/verif/MANIFEST.json','w'), indent=1)
print("claimed:", sorted(CLAIMED))
