#!/bin/bash
# benign_matrix.sh <diff>... : each diff is applied to a scratch copy of /repo; all four quick checks must exit 0
cd /verif
for D in "$@"; do
  S=$(mktemp -d /tmp/benign-XXXXXX)
  D=$(readlink -f "$D"); rsync -a --exclude .git /repo/ $S/ && ( cd $S && patch -p1 -s < "$D" ) || { echo "$D PATCH-FAILED"; rm -rf $S; continue; }
  for P in C13 C15 C16 C17; do
    out=$(VERIF_REPO=$S bin/check $P quick 2>&1); rc=$?
    echo "$(basename $(dirname $D))/$(basename $D) $P exit=$rc $(echo "$out" | grep -o 'oracle=[^ ]*' | sort -u | tr '\n' ' ') $(echo "$out" | grep '^MACHINERY' | head -1 | cut -c1-200)"
  done
  rm -rf $S
done
