#!/bin/bash
# Regression test of the instrumenter: awkward range/sync patterns must be rewritten into code that builds and vets.
export GOFLAGS=-mod=mod GOPROXY=off GOSUMDB=off GOTOOLCHAIN=local
set -e
T=$(mktemp -d /tmp/instr-XXXX); trap 'rm -rf $T' EXIT
mkdir -p $T/m/verifsim $T/m/sub
cp /verif/sim/hookpkg/verifsim.go.txt $T/m/verifsim/verifsim.go
cp /verif/instrument/testdata/m/go.mod.txt $T/m/go.mod
cp /verif/instrument/testdata/m/a.go.txt $T/m/a.go
cp /verif/instrument/testdata/m/sub/s.go.txt $T/m/sub/s.go
(cd /verif/instrument && go build -o $T/instrument .)
GOROOT=$(go env GOROOT) $T/instrument $T/m > $T/report.json
python3 - $T/report.json <<'PY'
import json,sys
r=json.load(open(sys.argv[1]))
modes=[s['mode'] for s in r['sites']]
assert len(r["sites"])==9 and modes.count('skipped')==1 and not r.get('warnings'), r
assert sum(1 for s in r['sync_sites'] if s['mode']!='skipped')>=15, r['sync_sites']
print("instrumenter: %d map sites (%s), %d sync sites"%(len(modes),",".join(modes),len(r['sync_sites'])))
PY
(cd $T/m && go build ./... && go vet ./...) && echo "instrumented copy builds and vets: OK"
