#!/bin/bash
# seeded_matrix.sh [tier] [ids...] : run the relevant check(s) against every seeded change (scratch copies of /repo), update meta.json and sensitivity/RESULTS.md
TIER=${1:-quick}; shift
cd /verif
IDS="$@"; [ -z "$IDS" ] && IDS=$(ls -d seeded/*/ | xargs -n1 basename)
mkdir -p sensitivity
for id in $IDS; do
  d=seeded/$id; P=$(jq -r .breaks_property $d/meta.json)
  PROPS="$P $(jq -r '(.also_check // []) | join(" ")' $d/meta.json)"
  S=$(mktemp -d /tmp/seeded-XXXXXX)
  rsync -a --exclude .git /repo/ $S/ && ( cd $S && patch -p1 -s < /verif/$d/patch.diff ) || { echo "$id PATCH-FAILED"; rm -rf $S; continue; }
  for Q in $PROPS; do
    out=$(VERIF_MIN_BUDGET=${VERIF_MIN_BUDGET:-20s} VERIF_REPO=$S bin/check $Q $TIER 2>&1); rc=$?
    oracles=$(echo "$out" | grep -o "oracle=[^ ]*" | sort -u | tr '\n' ' ')
    echo "$id $Q $TIER exit=$rc $oracles"
    python3 - "$d/meta.json" "$Q" "$TIER" "$rc" "$oracles" <<'PY'
import json,sys
p,q,t,rc,o=sys.argv[1:6]
m=json.load(open(p)); m.setdefault("detection",{})[f"{q}/{t}"]={"exit":int(rc),"oracles":o.split()}
json.dump(m,open(p,'w'),indent=1)
PY
  done
  rm -rf $S
done
