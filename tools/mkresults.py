#!/usr/bin/env python3
"""Builds sensitivity/RESULTS.md from seeded/*/meta.json."""
import json, os, glob
rows=[]
for d in sorted(glob.glob('/verif/seeded/*')):
    mp=os.path.join(d,'meta.json')
    if not os.path.exists(mp): continue
    m=json.load(open(mp))
    det=m.get('detection',{})
    def cell(t):
        out=[]
        for k,v in sorted(det.items()):
            if k.endswith('/'+t):
                out.append(("**caught** " if v['exit']==1 else ("exit %d "%v['exit']))+", ".join(o.replace('oracle=','') for o in v['oracles']))
        return "; ".join(out) or "—"
    rows.append((m['id'], m['breaks_property'], m.get('needs_to_manifest',''), cell('quick'), cell('thorough')))
with open('/verif/sensitivity/RESULTS.md','w') as f:
    f.write("# Seeded property-breaking changes and which check catches them\n\n")
    f.write("Every change below compiles, passes the repository's 79 tests and comes with a demonstration that fails with it and passes without it (confirmed with tools/confirm_mutant.sh). `tools/seeded_matrix.sh <tier>` applies each to a scratch copy of /repo and runs the check of the property it breaks (VERIF_REPO=<copy>).\n\n")
    f.write("| id | property | needs, in order to manifest | quick | thorough |\n|---|---|---|---|---|\n")
    for r in rows:
        f.write("| %s | %s | %s | %s | %s |\n"%r)
    nq=sum(1 for r in rows if 'caught' in r[3]); nt=sum(1 for r in rows if 'caught' in r[3] or 'caught' in r[4])
    f.write("\n%d changes; %d caught by the quick tier of some check in the last full run, %d by quick or thorough. (A cell lists every check that was run against the change: the check of the property it was written against and, where noted in meta.json, C13.)\n"%(len(rows),nq,nt))
print(open('/verif/sensitivity/RESULTS.md').read()[-300:])
