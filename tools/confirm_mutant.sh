#!/bin/bash
# confirm_mutant.sh <mutant.diff> <demo-dir>  : (1) tests pass with patch (2) demo fails with patch (3) demo passes without
export GOFLAGS=-mod=mod GOPROXY=off GOSUMDB=off GOTOOLCHAIN=local
DIFF=$(readlink -f "$1"); DEMO=$(readlink -f "$2")
S=$(mktemp -d /tmp/confirm-XXXXXX); trap 'rm -rf $S' EXIT
rsync -a --exclude .git /repo/ $S/clean/; rsync -a $S/clean/ $S/mut/
( cd $S/mut && patch -p1 -s < "$DIFF" ) || { echo "PATCH-FAILED"; exit 2; }
( cd $S/mut && go build ./... ) >/dev/null 2>&1 || { echo "BUILD-FAILED"; exit 2; }
T=PASS; for i in 1 2 3; do ( cd $S/mut && go test -vet=off -count=1 ./... ) >/dev/null 2>&1 || T=FAIL; done
CMD=$(grep -v '^\s*$' "$DEMO/CMD.txt" | grep -v '^#' | tail -1)
SUB=0; echo "$CMD" | grep -q "\./$(basename $DEMO)/" && SUB=1
for d in clean mut; do
  [ $SUB = 1 ] && { mkdir -p "$S/$d/$(basename $DEMO)" && cp -r "$DEMO"/. "$S/$d/$(basename $DEMO)/"; continue; }
  find "$DEMO" -maxdepth 3 -type f ! -name CMD.txt | while read f; do rel=${f#$DEMO/}; mkdir -p "$S/$d/$(dirname $rel)"; cp "$f" "$S/$d/$rel"; done
done
( cd $S/mut && timeout 600 bash -c "$CMD" ) >$S/mut.out 2>&1; M=$?
( cd $S/clean && timeout 600 bash -c "$CMD" ) >$S/clean.out 2>&1; C=$?
echo "tests_with_patch=$T demo_with_patch_exit=$M demo_clean_exit=$C cmd=[$CMD]"
[ "$T" = PASS ] && [ $M -ne 0 ] && [ $C -eq 0 ] && echo CONFIRMED || { echo NOT-CONFIRMED; tail -5 $S/mut.out; echo ---; tail -5 $S/clean.out; }
