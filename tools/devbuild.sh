#!/bin/bash
# dev helper: build simrun (race or not) against a tree into a kept directory
# usage: devbuild.sh <repo> <outdir> [race]
export GOFLAGS=-mod=mod GOPROXY=off GOSUMDB=off GOTOOLCHAIN=local
set -e
REPO=$1; T=$2; RACE=${3:+-race}
rm -rf "$T"; mkdir -p "$T/bm"
rsync -a --exclude .git "$REPO"/ "$T/bm/"
mkdir -p "$T/bm/verifsim" && cp /verif/sim/hookpkg/verifsim.go.txt "$T/bm/verifsim/verifsim.go"
(cd /verif/instrument && go build -o "$T/instrument" .)
GOROOT="$(go env GOROOT)" "$T/instrument" "$T/bm" > "$T/instr.json"
mkdir -p "$T/sim" && cp /verif/sim/simrun/*.go "$T/sim/"
printf 'module verifsimrun\n\ngo 1.19\n\nrequire github.com/microcosm-cc/bluemonday v0.0.0\n\nreplace github.com/microcosm-cc/bluemonday => ../bm\n' > "$T/sim/go.mod"
cp "$REPO/go.sum" "$T/sim/go.sum"
(cd "$T/sim" && go build $RACE -trimpath -o "$T/simrun" .)
mkdir -p "$T/work"
echo "$T/simrun"
