#!/usr/bin/env python3
"""register_mutants.py <src-outdir> <wave-label> : copies confirmed sub-agent mutants into /verif/seeded/ (needs texts from <src>/<agent>/needs.json)"""
import os, json, shutil, sys
src, wave = sys.argv[1], sys.argv[2]
for agent in sorted(os.listdir(src)):
    d=os.path.join(src,agent)
    nf=os.path.join(d,'needs.json')
    if not os.path.isdir(d) or not os.path.exists(nf): continue
    needs=json.load(open(nf))
    for k in (1,2,3):
        diff=os.path.join(d,f'mutant{k}.diff')
        if not os.path.exists(diff) or str(k) not in needs: continue
        sid=f'{agent}{k}'; prop=agent[:3].upper(); out=f'/verif/seeded/{prop}-{sid}'
        shutil.rmtree(out,ignore_errors=True); os.makedirs(out)
        shutil.copy(diff, out+'/patch.diff'); shutil.copytree(os.path.join(d,f'demo{k}'), out+'/demo')
        md=os.path.join(d,f'mutant{k}.md')
        if os.path.exists(md): shutil.copy(md, out+'/description.md')
        cmd=[l for l in open(out+'/demo/CMD.txt').read().splitlines() if l.strip() and not l.startswith('#')][-1]
        meta={"id":f"{prop}-{sid}","breaks_property":prop,"source":f"independent sub-agent ({wave}) given only the property text, a scratch worktree and a list of mechanisms not to repeat",
              "needs_to_manifest":needs[str(k)],
              "confirmed":{"how":"tools/confirm_mutant.sh: patch on a scratch copy of /repo; test suite x3 passes; demo fails with the patch and passes without","demo_cmd":cmd,
                           "tests_pass_with_patch":True,"demo_fails_with_patch":True,"demo_passes_without_patch":True},
              "detection":{}}
        json.dump(meta,open(out+'/meta.json','w'),indent=1)
        print("registered", out)
