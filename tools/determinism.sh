#!/bin/bash
# determinism.sh [n] : large-sample determinism proof. For each property, the first n plans of a derived
# stream are executed in 8 fresh processes (GOMAXPROCS 1,2,4,16 x 2 repetitions); all digest listings must be identical.
N=${1:-300}
export GOFLAGS=-mod=mod GOPROXY=off GOSUMDB=off GOTOOLCHAIN=local
cd /verif
for P in C13 C15 C16 C17; do
  D=/tmp/determinism-$P; RACE=""; [ $P = C13 ] && RACE=race
  tools/devbuild.sh /repo $D $RACE >/dev/null 2>&1 || { echo "$P build failed"; continue; }
  if [ $P = C15 ]; then
    rsync -a --exclude .git /repo/ $D/plain/; mkdir -p $D/cli
    (cd $D/plain && go build -o $D/cli/sanitise_ugc ./cmd/sanitise_ugc && go build -o $D/cli/sanitise_html_email ./cmd/sanitise_html_email)
    export VERIF_CLI_DIR=$D/cli
  fi
  i=0
  for G in 1 2 4 16 1 2 4 16; do
    i=$((i+1))
    ( GOMAXPROCS=$G GODEBUG=asyncpreemptoff=1 GORACE="atexit_sleep_ms=0 halt_on_error=0 exitcode=0 log_path=$D/work/race" $D/simrun digest -prop $P -tier quick -seed 987654321 -n $N > $D/out.$i 2>$D/err.$i ) &
  done
  wait
  bad=0; for i in 2 3 4 5 6 7 8; do cmp -s $D/out.1 $D/out.$i || bad=$((bad+1)); done
  echo "$P: $N plans x 8 processes (GOMAXPROCS 1,2,4,16 twice): $(wc -l < $D/out.1) digest lines, $bad listings differ from the first"
  rm -rf $D
done
