#!/bin/bash
# run_seeded.sh <patch.diff> <tier> <prop> [prop...] : apply the patch to a scratch copy of /repo and run the named checks against it
DIFF=$(readlink -f "$1"); TIER=$2; shift 2
S=$(mktemp -d /tmp/seeded-XXXXXX); trap 'rm -rf $S' EXIT
rsync -a --exclude .git /repo/ $S/ && ( cd $S && patch -p1 -s < "$DIFF" ) || { echo PATCH-FAILED; exit 2; }
for P in "$@"; do
  out=$(VERIF_REPO=$S /verif/bin/check $P $TIER 2>&1); rc=$?
  echo "== $P $TIER exit=$rc"
  echo "$out" | grep -A2 "^VIOLATION\|^MACHINERY\|^KNOWN" | cut -c1-400 | head -20
done
