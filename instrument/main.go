// instrument rewrites, in a scratch copy of bluemonday, the header of every
// `for ... range <map>` statement so that the iteration order is decided by
// verifsim.Order (see /verif/sim/hookpkg/verifsim.go.txt).  Everything else in
// the file stays byte-identical and on the same line.
//
// It never refuses: a loop it cannot rewrite without possibly changing
// semantics is left alone and listed as "skipped" (map order at that site then
// stays the Go runtime's), and if the package cannot be type-checked nothing is
// rewritten at all.  The report (JSON on stdout) says what happened.
//
// usage: instrument <scratch-module-dir>
package main

import (
	"encoding/json"
	"fmt"
	"go/ast"
	"go/importer"
	"go/parser"
	"go/token"
	"go/types"
	"os"
	"path/filepath"
	"sort"
	"strings"
)

type site struct {
	File   string `json:"file"`
	Line   int    `json:"line"`
	Label  string `json:"label"`
	Mode   string `json:"mode"` // keys | pairs | skipped
	Reason string `json:"reason,omitempty"`
	Expr   string `json:"expr"`
}

type syncSite struct {
	Label string `json:"label"`
	Call  string `json:"call"`
	Kind  string `json:"kind"` // lock | unlock | once | sync
	Mode  string `json:"mode"` // wrapped | yield-before | deferred-unlock | skipped
}

type report struct {
	Module    string     `json:"module"`
	Packages  []string   `json:"packages"`
	Sites     []site     `json:"sites"`
	SyncSites []syncSite `json:"sync_sites,omitempty"`
	Warnings  []string   `json:"warnings,omitempty"`
}

type edit struct {
	start, end int
	text       string
}

func main() {
	if len(os.Args) != 2 {
		fmt.Fprintln(os.Stderr, "usage: instrument <module-dir>")
		os.Exit(2)
	}
	root := os.Args[1]
	rep := report{}
	modBytes, err := os.ReadFile(filepath.Join(root, "go.mod"))
	if err != nil {
		fmt.Fprintln(os.Stderr, "instrument:", err)
		os.Exit(2)
	}
	for _, l := range strings.Split(string(modBytes), "\n") {
		l = strings.TrimSpace(l)
		if strings.HasPrefix(l, "module ") {
			rep.Module = strings.TrimSpace(strings.TrimPrefix(l, "module "))
			break
		}
	}
	if rep.Module == "" {
		fmt.Fprintln(os.Stderr, "instrument: no module line in go.mod")
		os.Exit(2)
	}

	// every directory with non-test, non-main Go files, except the hook package
	var dirs []string
	filepath.Walk(root, func(p string, fi os.FileInfo, err error) error {
		if err != nil {
			return nil
		}
		if fi.IsDir() {
			b := filepath.Base(p)
			if p != root && (strings.HasPrefix(b, ".") || strings.HasPrefix(b, "_") || b == "testdata" || b == "vendor" || b == "verifsim") {
				return filepath.SkipDir
			}
			dirs = append(dirs, p)
		}
		return nil
	})
	sort.Strings(dirs)

	for _, dir := range dirs {
		instrumentDir(root, dir, &rep)
	}
	out, _ := json.MarshalIndent(rep, "", " ")
	fmt.Println(string(out))
}

func instrumentDir(root, dir string, rep *report) {
	fset := token.NewFileSet()
	ents, _ := os.ReadDir(dir)
	var files []*ast.File
	var names []string
	src := map[string][]byte{}
	pkgName := ""
	for _, e := range ents {
		n := e.Name()
		if e.IsDir() || !strings.HasSuffix(n, ".go") || strings.HasSuffix(n, "_test.go") {
			continue
		}
		full := filepath.Join(dir, n)
		b, err := os.ReadFile(full)
		if err != nil {
			continue
		}
		f, err := parser.ParseFile(fset, full, b, parser.ParseComments)
		if err != nil {
			rep.Warnings = append(rep.Warnings, fmt.Sprintf("%s: parse error, package left alone: %v", full, err))
			return
		}
		if hasIgnoreTag(f) {
			continue
		}
		if pkgName == "" {
			pkgName = f.Name.Name
		}
		if f.Name.Name != pkgName {
			continue
		}
		files = append(files, f)
		names = append(names, full)
		src[full] = b
	}
	if len(files) == 0 || pkgName == "main" {
		return
	}
	rel, _ := filepath.Rel(root, dir)
	rep.Packages = append(rep.Packages, rel)

	info := &types.Info{Types: map[ast.Expr]types.TypeAndValue{}, Uses: map[*ast.Ident]types.Object{}, Defs: map[*ast.Ident]types.Object{}}
	var terrs []string
	conf := types.Config{
		Importer: importer.ForCompiler(fset, "source", nil),
		Error:    func(err error) { terrs = append(terrs, err.Error()) },
	}
	// the source importer resolves module imports relative to the cwd
	old, _ := os.Getwd()
	os.Chdir(dir)
	_, _ = conf.Check(rep.Module+"/"+rel, fset, files, info)
	os.Chdir(old)
	if len(terrs) > 0 {
		rep.Warnings = append(rep.Warnings, fmt.Sprintf("%s: %d type errors (first: %s); package left un-instrumented", rel, len(terrs), terrs[0]))
		return
	}

	for i, f := range files {
		full := names[i]
		b := src[full]
		var edits []edit
		relFile, _ := filepath.Rel(root, full)
		ast.Inspect(f, func(n ast.Node) bool {
			rs, ok := n.(*ast.RangeStmt)
			if !ok {
				return true
			}
			tv, ok := info.Types[rs.X]
			if !ok || tv.Type == nil {
				return true
			}
			if _, isMap := tv.Type.Underlying().(*types.Map); !isMap {
				return true
			}
			pos := fset.Position(rs.For)
			st := site{File: relFile, Line: pos.Line, Label: fmt.Sprintf("%s:%d", relFile, pos.Line)}
			xs := string(b[fset.Position(rs.X.Pos()).Offset:fset.Position(rs.X.End()).Offset])
			st.Expr = xs
			hdr, mode, reason := rewriteHeader(fset, b, rs, info, xs, st.Label)
			st.Mode, st.Reason = mode, reason
			if mode != "skipped" {
				edits = append(edits, edit{fset.Position(rs.For).Offset, fset.Position(rs.Body.Lbrace).Offset + 1, hdr})
			}
			rep.Sites = append(rep.Sites, st)
			return true
		})
		if os.Getenv("VERIF_INSTR_MODE") != "maps" {
			edits = append(edits, syncEdits(fset, f, b, info, relFile, rep)...)
		}
		if len(edits) == 0 {
			continue
		}
		// import on the package-clause line keeps every line number stable
		pkgEnd := fset.Position(f.Name.End()).Offset
		edits = append(edits, edit{pkgEnd, pkgEnd, fmt.Sprintf("; import verifsim %q", rep.Module+"/verifsim")})
		sort.SliceStable(edits, func(a, c int) bool {
			if edits[a].start != edits[c].start {
				return edits[a].start > edits[c].start
			}
			return edits[a].end > edits[c].end // a replacement before a pure insertion at the same offset
		})
		for _, e := range edits {
			b = append(append(append([]byte{}, b[:e.start]...), e.text...), b[e.end:]...)
		}
		if err := os.WriteFile(full, b, 0o644); err != nil {
			fmt.Fprintln(os.Stderr, "instrument:", err)
			os.Exit(2)
		}
	}
}

// syncEdits makes every use of package sync / sync/atomic inside the library a scheduling
// point of the simulator (verifsim.Yield), so that interleavings *between* two critical
// sections - check-then-act windows that the race detector cannot see - are explored, and
// tells the simulator which regions hold a lock (verifsim.Held) so that it never parks a
// task inside one.
func syncEdits(fset *token.FileSet, f *ast.File, b []byte, info *types.Info, relFile string, rep *report) []edit {
	var edits []edit
	var stack []ast.Node
	off := func(p token.Pos) int { return fset.Position(p).Offset }
	inList := func(child ast.Node, parent ast.Node) bool {
		var list []ast.Stmt
		switch p := parent.(type) {
		case *ast.BlockStmt:
			list = p.List
		case *ast.CaseClause:
			list = p.Body
		case *ast.CommClause:
			list = p.Body
		default:
			return false
		}
		for _, s := range list {
			if s == child {
				return true
			}
		}
		return false
	}
	ast.Inspect(f, func(n ast.Node) bool {
		if n == nil {
			stack = stack[:len(stack)-1]
			return true
		}
		stack = append(stack, n)
		// channel operations: a task about to block on a channel is a scheduling point, otherwise two
		// callers can never both be waiting on library-internal goroutines at the same time
		if isChanOp(n, info) {
			var stmt ast.Stmt
			for i := len(stack) - 1; i >= 1; i-- {
				switch stack[i].(type) {
				case *ast.CommClause, *ast.CaseClause:
					continue // a clause is not a place for a statement; go up to the select/switch
				}
				if s, ok := stack[i].(ast.Stmt); ok && inList(s, stack[i-1]) {
					stmt = s
					break
				}
				if _, isFn := stack[i].(*ast.FuncLit); isFn {
					break
				}
			}
			pos := fset.Position(n.Pos())
			label := fmt.Sprintf("%s:%d", relFile, pos.Line)
			ss := syncSite{Label: label, Call: "channel operation", Kind: "chan", Mode: "skipped"}
			if stmt != nil {
				edits = append(edits, edit{off(stmt.Pos()), off(stmt.Pos()), "verifsim.Yield(" + fmt.Sprintf("%q", label) + "); "})
				ss.Mode = "yield-before"
			}
			rep.SyncSites = append(rep.SyncSites, ss)
			return true
		}
		call, ok := n.(*ast.CallExpr)
		if !ok {
			return true
		}
		sel, ok := call.Fun.(*ast.SelectorExpr)
		if !ok {
			return true
		}
		fn, ok := info.Uses[sel.Sel].(*types.Func)
		if !ok || fn.Pkg() == nil {
			return true
		}
		if pp := fn.Pkg().Path(); pp != "sync" && pp != "sync/atomic" {
			return true
		}
		kind := "sync"
		switch fn.Name() {
		case "Lock", "RLock":
			kind = "lock"
		case "Unlock", "RUnlock":
			kind = "unlock"
		case "Do":
			kind = "once"
		case "TryLock", "TryRLock", "RLocker", "NewCond":
			return true
		}
		// the enclosing statement that sits directly in a statement list
		var stmt ast.Stmt
		for i := len(stack) - 2; i >= 1; i-- {
			switch stack[i].(type) {
			case *ast.CommClause, *ast.CaseClause:
				continue
			}
			if s, ok := stack[i].(ast.Stmt); ok && inList(s, stack[i-1]) {
				stmt = s
				break
			}
			if _, isFn := stack[i].(*ast.FuncLit); isFn {
				break // do not hoist out of a closure body
			}
		}
		pos := fset.Position(call.Pos())
		label := fmt.Sprintf("%s:%d", relFile, pos.Line)
		q := fmt.Sprintf("%q", label)
		ss := syncSite{Label: label, Call: string(b[off(call.Pos()):off(call.End())]), Kind: kind, Mode: "skipped"}
		if len(ss.Call) > 60 {
			ss.Call = ss.Call[:60]
		}
		defer func() { rep.SyncSites = append(rep.SyncSites, ss) }()
		if stmt == nil {
			return true
		}
		switch st := stmt.(type) {
		case *ast.ExprStmt:
			if st.X == ast.Expr(call) {
				var pre, post string
				switch kind {
				case "lock":
					pre, post = "verifsim.Yield("+q+"); ", "; verifsim.Held(1)"
				case "unlock":
					pre, post = "verifsim.Held(-1); ", "; verifsim.Yield("+q+")"
				case "once":
					pre, post = "verifsim.Yield("+q+"); verifsim.Held(1); ", "; verifsim.Held(-1)"
				default:
					pre = "verifsim.Yield(" + q + "); "
				}
				edits = append(edits, edit{off(st.Pos()), off(st.Pos()), pre})
				if post != "" {
					edits = append(edits, edit{off(st.End()), off(st.End()), post})
				}
				ss.Mode = "wrapped"
				return true
			}
		case *ast.DeferStmt:
			if st.Call == call {
				if kind == "unlock" {
					orig := string(b[off(call.Pos()):off(call.End())])
					edits = append(edits, edit{off(st.Pos()), off(st.End()), "defer func() { verifsim.Held(-1); " + orig + " }()"})
					ss.Mode = "deferred-unlock"
				}
				return true
			}
		case *ast.GoStmt:
			return true
		}
		if kind == "sync" {
			edits = append(edits, edit{off(stmt.Pos()), off(stmt.Pos()), "verifsim.Yield(" + q + "); "})
			ss.Mode = "yield-before"
		}
		return true
	})
	return edits
}

// isChanOp: a send, a receive, a select, or a range over a channel.
func isChanOp(n ast.Node, info *types.Info) bool {
	switch x := n.(type) {
	case *ast.SendStmt, *ast.SelectStmt:
		return true
	case *ast.UnaryExpr:
		return x.Op == token.ARROW
	case *ast.RangeStmt:
		if tv, ok := info.Types[x.X]; ok && tv.Type != nil {
			_, isChan := tv.Type.Underlying().(*types.Chan)
			return isChan
		}
	}
	return false
}

func hasIgnoreTag(f *ast.File) bool {
	for _, cg := range f.Comments {
		if cg.Pos() > f.Package {
			break
		}
		for _, c := range cg.List {
			t := c.Text
			if strings.HasPrefix(t, "//go:build") || strings.HasPrefix(t, "// +build") {
				if strings.Contains(t, "ignore") {
					return true
				}
			}
		}
	}
	return false
}

func pure(e ast.Expr) bool {
	switch x := e.(type) {
	case *ast.Ident:
		return true
	case *ast.SelectorExpr:
		return pure(x.X)
	case *ast.ParenExpr:
		return pure(x.X)
	case *ast.StarExpr:
		return pure(x.X)
	}
	return false
}

func mentionsName(e ast.Expr, name string) bool {
	if name == "" || name == "_" {
		return false
	}
	found := false
	ast.Inspect(e, func(n ast.Node) bool {
		if id, ok := n.(*ast.Ident); ok && id.Name == name {
			found = true
		}
		return !found
	})
	return found
}

func identName(e ast.Expr) (string, bool) {
	if e == nil {
		return "", true
	}
	id, ok := e.(*ast.Ident)
	if !ok {
		return "", false
	}
	return id.Name, true
}

// capturesLoopVars reports whether the loop body could observe the difference
// between per-loop and per-iteration variables: a function literal or an
// address-of that mentions one of the loop variables.
func capturesLoopVars(rs *ast.RangeStmt, info *types.Info) bool {
	objs := map[types.Object]bool{}
	for _, e := range []ast.Expr{rs.Key, rs.Value} {
		if id, ok := e.(*ast.Ident); ok && id.Name != "_" {
			if o := info.Defs[id]; o != nil {
				objs[o] = true
			}
		}
	}
	if len(objs) == 0 {
		return false
	}
	mentions := func(n ast.Node) bool {
		found := false
		ast.Inspect(n, func(m ast.Node) bool {
			if id, ok := m.(*ast.Ident); ok && objs[info.Uses[id]] {
				found = true
			}
			return !found
		})
		return found
	}
	bad := false
	ast.Inspect(rs.Body, func(n ast.Node) bool {
		switch x := n.(type) {
		case *ast.FuncLit:
			if mentions(x) {
				bad = true
			}
		case *ast.UnaryExpr:
			if x.Op == token.AND && mentions(x) {
				bad = true
			}
		}
		return !bad
	})
	return bad
}

func rewriteHeader(fset *token.FileSet, b []byte, rs *ast.RangeStmt, info *types.Info, xs, label string) (string, string, string) {
	q := fmt.Sprintf("%q", label)
	if rs.Key == nil && rs.Value == nil {
		return fmt.Sprintf("for range verifsim.Keys(%s, %s) {", q, xs), "keys", ""
	}
	text := func(e ast.Expr) string {
		return string(b[fset.Position(e.Pos()).Offset:fset.Position(e.End()).Offset])
	}
	if rs.Tok == token.ASSIGN {
		// arbitrary assignable expressions on the left: snapshot pairs
		var asg string
		switch {
		case rs.Value == nil:
			asg = fmt.Sprintf("%s = verifsimKV.K", text(rs.Key))
		default:
			asg = fmt.Sprintf("%s, %s = verifsimKV.K, verifsimKV.V", text(rs.Key), text(rs.Value))
		}
		return fmt.Sprintf("for _, verifsimKV := range verifsim.Pairs(%s, %s) { %s;", q, xs, asg), "pairs", "assignment form"
	}
	k, ok1 := identName(rs.Key)
	v, ok2 := identName(rs.Value)
	if !ok1 || !ok2 {
		return "", "skipped", "loop variables are not identifiers"
	}
	if capturesLoopVars(rs, info) {
		return "", "skipped", "body captures a loop variable in a closure or takes its address"
	}
	kBlank := k == "" || k == "_"
	vBlank := v == "" || v == "_"
	if kBlank && vBlank {
		return fmt.Sprintf("for range verifsim.Keys(%s, %s) {", q, xs), "keys", ""
	}
	if pure(rs.X) && !mentionsName(rs.X, k) && !mentionsName(rs.X, v) {
		if vBlank {
			return fmt.Sprintf("for _, %s := range verifsim.Keys(%s, %s) {", k, q, xs), "keys", ""
		}
		kk := k
		if kBlank {
			kk = "verifsimK"
		}
		return fmt.Sprintf("for _, %s := range verifsim.Keys(%s, %s) { %s, verifsimOK := (%s)[%s]; if !verifsimOK { continue };",
			kk, q, xs, v, xs, kk), "keys", ""
	}
	var decl string
	switch {
	case kBlank:
		decl = fmt.Sprintf("%s := verifsimKV.V", v)
	case vBlank:
		decl = fmt.Sprintf("%s := verifsimKV.K", k)
	default:
		decl = fmt.Sprintf("%s, %s := verifsimKV.K, verifsimKV.V", k, v)
	}
	return fmt.Sprintf("for _, verifsimKV := range verifsim.Pairs(%s, %s) { %s;", q, xs, decl), "pairs", "ranged expression is evaluated once"
}
