module verifinstrument

go 1.19
