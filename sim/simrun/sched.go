package main

import (
	"fmt"
	"os"
	"runtime"
	"syscall"
	"unsafe"
)

// The baton: caller tasks are real goroutines running unmodified library code,
// but exactly one runs at a time.  A task parks at every scheduling point by
// writing a 16-byte request to a shared pipe and blocking on a read of its own
// resume pipe; the scheduler (one goroutine, the only consumer of the plan's
// schedule and of the PRNG) picks who continues.
//
// The pipe I/O goes through raw syscall.Syscall, which the Go race runtime does
// not instrument.  The serialisation is therefore invisible to ThreadSanitizer:
// it sees the tasks as unsynchronised goroutines and reports every conflicting
// access between two calls, on an execution that is in fact strictly sequential
// and a pure function of the plan.  Tasks and scheduler share no Go memory
// except data created before the tasks were started.

const (
	evStart = iota + 1
	evOpStart
	evRead
	evWrite
	evCallback
	evMap
	evDone
	evSync
)

var evNames = map[uint32]string{evStart: "start", evOpStart: "op", evRead: "read", evWrite: "write", evCallback: "cb", evMap: "map", evDone: "done", evSync: "sync"}

type msg [16]byte

func putMsg(m *msg, task, kind uint32, detail uint64) {
	m[0], m[1], m[2], m[3] = byte(task), byte(task>>8), byte(task>>16), byte(task>>24)
	m[4], m[5], m[6], m[7] = byte(kind), byte(kind>>8), byte(kind>>16), byte(kind>>24)
	for i := 0; i < 8; i++ {
		m[8+i] = byte(detail >> (8 * i))
	}
}

func getMsg(m *msg) (task, kind uint32, detail uint64) {
	task = uint32(m[0]) | uint32(m[1])<<8 | uint32(m[2])<<16 | uint32(m[3])<<24
	kind = uint32(m[4]) | uint32(m[5])<<8 | uint32(m[6])<<16 | uint32(m[7])<<24
	for i := 0; i < 8; i++ {
		detail |= uint64(m[8+i]) << (8 * i)
	}
	return
}

func rawWrite(fd int, m *msg) {
	for {
		n, _, e := syscall.Syscall(syscall.SYS_WRITE, uintptr(fd), uintptr(unsafe.Pointer(m)), uintptr(len(m)))
		if e == syscall.EINTR || e == syscall.EAGAIN {
			continue
		}
		if e != 0 || int(n) != len(m) {
			fmt.Fprintf(os.Stderr, "MACHINERY: baton write failed: n=%d errno=%d\n", n, e)
			os.Exit(2)
		}
		return
	}
}

func rawRead(fd int, m *msg) {
	got := 0
	for got < len(m) {
		n, _, e := syscall.Syscall(syscall.SYS_READ, uintptr(fd), uintptr(unsafe.Pointer(&m[got])), uintptr(len(m)-got))
		if e == syscall.EINTR || e == syscall.EAGAIN {
			continue
		}
		if e != 0 || n == 0 {
			fmt.Fprintf(os.Stderr, "MACHINERY: baton read failed: n=%d errno=%d\n", n, e)
			os.Exit(2)
		}
		got += int(n)
	}
}

// Hooks that have no task handle (map-order hook, user callbacks) find their
// task through the goroutine id.  Each task registers its id in its own slot
// of a fixed table; the accessors are norace so that the table neither adds
// happens-before edges between tasks nor shows up in race reports.
const maxTasks = 16

var taskGoids [maxTasks]uint64

func goid() uint64 {
	var buf [64]byte
	n := runtime.Stack(buf[:], false)
	// "goroutine 123 [running]:"
	var id uint64
	for i := len("goroutine "); i < n && buf[i] >= '0' && buf[i] <= '9'; i++ {
		id = id*10 + uint64(buf[i]-'0')
	}
	return id
}

//go:norace
func registerTask(i int, id uint64) { taskGoids[i] = id }

//go:norace
func lookupTask(id uint64) int32 {
	for i := range taskGoids {
		if taskGoids[i] == id {
			return int32(i)
		}
	}
	return -1
}

//go:norace
func clearTasks() {
	for i := range taskGoids {
		taskGoids[i] = 0
	}
}

// getCur returns the index of the calling task, -1 on any other goroutine.
func getCur() int32 { return lookupTask(goid()) }

func setCur(int32) {}

type batonPipes struct {
	reqR, reqW int
	resR, resW []int
}

func newPipes(n int) (*batonPipes, error) {
	bp := &batonPipes{}
	var p [2]int
	if err := syscall.Pipe2(p[:], syscall.O_CLOEXEC); err != nil {
		return nil, err
	}
	bp.reqR, bp.reqW = p[0], p[1]
	for i := 0; i < n; i++ {
		if err := syscall.Pipe2(p[:], syscall.O_CLOEXEC); err != nil {
			return nil, err
		}
		bp.resR = append(bp.resR, p[0])
		bp.resW = append(bp.resW, p[1])
	}
	return bp, nil
}

func (bp *batonPipes) close() {
	syscall.Close(bp.reqR)
	syscall.Close(bp.reqW)
	for i := range bp.resR {
		syscall.Close(bp.resR[i])
		syscall.Close(bp.resW[i])
	}
}

// park is called on a task goroutine: announce the scheduling point, then block
// until the scheduler hands the baton back.
func park(reqW, resR int, task int, kind uint32, detail uint64) {
	var m msg
	putMsg(&m, uint32(task), kind, detail)
	rawWrite(reqW, &m)
	rawRead(resR, &m)
	setCur(int32(task))
	if _, flush, _ := getMsg(&m); flush == 1 {
		// The baton moved to this task from another one.  Empty every sync.Pool
		// (two collections: local -> victim -> gone) so that a pooled object put
		// by the previous task - package regexp keeps its matchers in pools -
		// cannot hand this task a happens-before edge that two independent
		// callers would not have.  The runtime's collector is not visible to
		// the race runtime, so this adds no edge itself.
		runtime.GC()
		runtime.GC()
	}
}

// finish announces that a task is done; it does not wait.
func finish(reqW int, task int) {
	var m msg
	putMsg(&m, uint32(task), evDone, 0)
	rawWrite(reqW, &m)
}

type schedEvent struct {
	Seq    int
	Task   uint32
	Kind   uint32
	Detail uint64
}

type scheduler struct {
	bp         *batonPipes
	n          int
	schedule   []int
	after      string // prng | first
	stick      float64
	rng        *RNG
	realised   []int
	log        []schedEvent
	switches   int
	stepCap    int
	pointCount map[uint32]int
	poolFlush  bool
	flushes    int
	blockMs    int
	freeMode   bool
	hung       bool // free mode, and then no task moved for c13HangMs
	holdKind   uint32
	// PCT mode
	pctPrio    []int
	pctChange  []int
	pctLow     int
	pctDepth   int
	pctHorizon int
}

// freeRun releases every parked task and answers every later request at once.
func (s *scheduler) freeRun(parked, done []bool) {
	var m msg
	for t := range parked {
		if parked[t] && !done[t] {
			parked[t] = false
			putMsg(&m, uint32(t), 0, 0)
			rawWrite(s.bp.resW[t], &m)
		}
	}
	for {
		all := true
		for t := range done {
			if !done[t] {
				all = false
			}
		}
		if all {
			return
		}
		if !waitReadable(s.bp.reqR, c13HangMs) {
			s.hung = true // nobody reached another point or finished for c13HangMs: blocked for good
			return
		}
		rawRead(s.bp.reqR, &m)
		mt, k, _ := getMsg(&m)
		if k == evDone {
			done[mt] = true
			continue
		}
		putMsg(&m, mt, 0, 0)
		rawWrite(s.bp.resW[mt], &m)
	}
}

// run drives n tasks (already started, each about to park with evStart) to
// completion.  It returns when every task has sent evDone.
func (s *scheduler) run() {
	parked := make([]bool, s.n)
	done := make([]bool, s.n)
	pendKind := make([]uint32, s.n)
	pendDetail := make([]uint64, s.n)
	var m msg
	// all tasks announce themselves; arrival order is the kernel's, so it is not logged
	for i := 0; i < s.n; i++ {
		rawRead(s.bp.reqR, &m)
		t, k, d := getMsg(&m)
		if k != evStart || int(t) >= s.n || parked[t] {
			fmt.Fprintf(os.Stderr, "MACHINERY: unexpected start message task=%d kind=%d\n", t, k)
			os.Exit(2)
		}
		parked[t], pendKind[t], pendDetail[t] = true, k, d
	}
	last := -1
	seq := 0
	for {
		var runnable []int
		for i := 0; i < s.n; i++ {
			if parked[i] && !done[i] {
				runnable = append(runnable, i)
			}
		}
		if len(runnable) == 0 {
			break
		}
		var pick int
		step := len(s.realised)
		switch {
		case s.stepCap > 0 && step >= s.stepCap:
			pick = 0
			for j, t := range runnable {
				if t == last {
					pick = j
				}
			}
		case step < len(s.schedule):
			c := s.schedule[step]
			if c < 0 {
				c = -c
			}
			pick = c % len(runnable)
		case s.after == "first":
			pick = 0
		case s.after == "hold":
			// Hold back every task that is parked at one kind of point (inside a user callback, at a
			// lock, at a Write ...) for as long as some other task can run: callers pile up at that
			// kind of point, which is where limits and hand-over windows that count callers in
			// flight show.
			var free []int
			for j, t := range runnable {
				if pendKind[t] != s.holdKind {
					free = append(free, j)
				}
			}
			if len(free) > 0 {
				pick = free[s.rng.Intn(len(free))]
			} else {
				pick = s.rng.Intn(len(runnable))
			}
		case s.after == "pct":
			// PCT (Burckhardt et al., ASPLOS 2010): random task priorities, the runnable task with
			// the highest priority runs, and at d-1 random change points the running task drops to
			// the lowest priority.  Finds ordering bugs of small depth with known probability.
			if s.pctPrio == nil {
				s.pctPrio = s.rng.Perm(s.n)
				for i := range s.pctPrio {
					s.pctPrio[i] += s.n // above every demoted value
				}
				for d := 0; d < s.pctDepth-1; d++ {
					s.pctChange = append(s.pctChange, s.rng.Intn(s.pctHorizon))
				}
			}
			for _, cp := range s.pctChange {
				if cp == step && last >= 0 {
					s.pctLow--
					s.pctPrio[last] = s.pctLow
				}
			}
			best := -1 << 30
			for j, t := range runnable {
				if s.pctPrio[t] > best {
					best, pick = s.pctPrio[t], j
				}
			}
		default:
			pick = s.rng.Intn(len(runnable))
			if last >= 0 && s.rng.Bool(s.stick) {
				for j, t := range runnable {
					if t == last {
						pick = j
					}
				}
			}
		}
		s.realised = append(s.realised, pick)
		t := runnable[pick]
		if last >= 0 && t != last && !done[last] {
			s.switches++
		}
		flush := uint32(0)
		if s.poolFlush && last >= 0 && t != last {
			flush = 1
			s.flushes++
		}
		last = t
		s.log = append(s.log, schedEvent{seq, uint32(t), pendKind[t], pendDetail[t]})
		s.pointCount[pendKind[t]]++
		seq++
		parked[t] = false
		putMsg(&m, uint32(t), flush, 0)
		rawWrite(s.bp.resW[t], &m)
		// exactly one task runs now; the next message is its next point (or done)
		if !waitReadable(s.bp.reqR, s.blockMs) {
			// The resumed task is blocked on something a parked task holds (the library
			// kept a lock across a Read/Write/callback).  The baton cannot serialise such
			// code; let every task run freely for the rest of this run.  Results and race
			// reports are still checked, the run is merely no longer replayable.
			s.freeMode = true
			s.freeRun(parked, done)
			return
		}
		rawRead(s.bp.reqR, &m)
		mt, k, d := getMsg(&m)
		if int(mt) != t {
			fmt.Fprintf(os.Stderr, "MACHINERY: baton broken: resumed task %d but task %d spoke\n", t, mt)
			os.Exit(2)
		}
		if k == evDone {
			done[t] = true
			s.log = append(s.log, schedEvent{seq, mt, k, d})
			seq++
		} else {
			parked[t], pendKind[t], pendDetail[t] = true, k, d
		}
	}
}

// waitReadable polls fd; false on timeout.
func waitReadable(fd int, ms int) bool {
	type pollfd struct {
		fd      int32
		events  int16
		revents int16
	}
	for {
		p := pollfd{fd: int32(fd), events: 1}
		n, _, e := syscall.Syscall(syscall.SYS_POLL, uintptr(unsafe.Pointer(&p)), 1, uintptr(ms))
		if e == syscall.EINTR {
			continue
		}
		return e == 0 && n > 0
	}
}

func (s *scheduler) digest() string {
	b := make([]byte, 0, len(s.log)*20)
	for _, e := range s.log {
		b = append(b, fmt.Sprintf("%d:%d:%d:%x;", e.Seq, e.Task, e.Kind, e.Detail)...)
	}
	return digestBytes(b)
}
