package main

import (
	"fmt"
	"net/url"
	"regexp"
	"strings"

	"github.com/microcosm-cc/bluemonday"
)

// Op is one exported-API call (or one builder chain) in serialisable form.
// A Recipe is the replayable description of a policy.
type Op struct {
	K       string   `json:"k"`
	Names   []string `json:"names,omitempty"`   // attribute / property / element / scheme names
	Re      string   `json:"re,omitempty"`      // value pattern (Matching) or scheme/element pattern
	Enum    []string `json:"enum,omitempty"`    // MatchingEnum
	Fn      string   `json:"fn,omitempty"`      // named callback
	Scope   string   `json:"scope,omitempty"`   // els | elsre | glob
	Els     []string `json:"els,omitempty"`     // OnElements(...)
	ElRe    string   `json:"elre,omitempty"`    // OnElementsMatching(...)
	NoAttrs bool     `json:"noattrs,omitempty"` // chain carries .AllowNoAttrs()
	// a second scope call on the SAME builder value (b.OnElements(..); b.Globally()), attr chains only
	Scope2 string   `json:"scope2,omitempty"`
	Els2   []string `json:"els2,omitempty"`
	ElRe2  string   `json:"elre2,omitempty"`
	// matcher set on the builder between the two scope calls (same kind as the first one)
	Re2   string   `json:"re2,omitempty"`
	Enum2 []string `json:"enum2,omitempty"`
	Fn2   string   `json:"fn2,omitempty"`
	B     bool     `json:"b,omitempty"`
	Ints  []int    `json:"ints,omitempty"` // sandbox values
}

type Recipe struct {
	Base string `json:"base"` // new | ugc | strict
	Ops  []Op   `json:"ops"`
}

func (o Op) String() string {
	var sb strings.Builder
	sb.WriteString(o.K)
	if len(o.Names) > 0 {
		fmt.Fprintf(&sb, "(%s)", strings.Join(o.Names, ","))
	}
	if o.Re != "" {
		fmt.Fprintf(&sb, ".re(%s)", o.Re)
	}
	if len(o.Enum) > 0 {
		fmt.Fprintf(&sb, ".enum(%s)", strings.Join(o.Enum, ","))
	}
	if o.Fn != "" {
		fmt.Fprintf(&sb, ".fn(%s)", o.Fn)
	}
	if o.NoAttrs {
		sb.WriteString(".noattrs")
	}
	switch o.Scope {
	case "els":
		fmt.Fprintf(&sb, ".on(%s)", strings.Join(o.Els, ","))
	case "elsre":
		fmt.Fprintf(&sb, ".onre(%s)", o.ElRe)
	case "glob":
		sb.WriteString(".globally")
	}
	switch o.Scope2 {
	case "els":
		fmt.Fprintf(&sb, ".THEN.on(%s)", strings.Join(o.Els2, ","))
	case "elsre":
		fmt.Fprintf(&sb, ".THEN.onre(%s)", o.ElRe2)
	case "glob":
		sb.WriteString(".THEN.globally")
	}
	if o.Re2 != "" || len(o.Enum2) > 0 || o.Fn2 != "" {
		fmt.Fprintf(&sb, "[matcher2 %s%v%s]", o.Re2, o.Enum2, o.Fn2)
	}
	if len(o.Ints) > 0 {
		fmt.Fprintf(&sb, "%v", o.Ints)
	}
	switch o.K {
	case "RequireParseableURLs", "AllowRelativeURLs", "RequireNoFollowOnLinks", "RequireNoFollowOnFullyQualifiedLinks",
		"RequireNoReferrerOnLinks", "RequireNoReferrerOnFullyQualifiedLinks", "AddTargetBlankToFullyQualifiedLinks",
		"RequireCrossOriginAnonymous", "AddSpaceWhenStrippingTag", "AllowUnsafe":
		fmt.Fprintf(&sb, "(%v)", o.B)
	}
	return sb.String()
}

// SplitReuse turns a chain whose builder value is used for two scope calls into the two
// independent chains it stands for (nil when the op has no second scope call).
func (o Op) SplitReuse() []Op {
	if o.Scope2 == "" {
		return nil
	}
	a, b := o, o
	a.Scope2, a.Els2, a.ElRe2, a.Re2, a.Enum2, a.Fn2 = "", nil, "", "", nil, ""
	b.Scope, b.Els, b.ElRe = o.Scope2, o.Els2, o.ElRe2
	b.Scope2, b.Els2, b.ElRe2, b.Re2, b.Enum2, b.Fn2 = "", nil, "", "", nil, ""
	if o.Re2 != "" {
		b.Re = o.Re2
	}
	if len(o.Enum2) > 0 {
		b.Enum = o.Enum2
	}
	if o.Fn2 != "" {
		b.Fn = o.Fn2
	}
	return []Op{a, b}
}

// SplitNames turns one call that names several attributes / properties / elements / schemes into
// the calls for each single name (the cartesian product for chains): the same set of rules.
func (o Op) SplitNames() []Op {
	if o.Scope2 != "" {
		return nil // handled by SplitReuse first
	}
	var out []Op
	switch o.K {
	case "AllowElements", "SkipElementsContent", "AllowElementsContent", "AllowURLSchemes":
		if len(o.Names) < 2 {
			return nil
		}
		for _, n := range o.Names {
			c := o
			c.Names = []string{n}
			out = append(out, c)
		}
	case "AllowAttrs", "AllowStyles":
		els := o.Els
		if o.Scope != "els" || len(els) == 0 {
			els = []string{""}
		}
		if len(o.Names) < 2 && len(els) < 2 {
			return nil
		}
		for _, n := range o.Names {
			for _, e := range els {
				c := o
				c.Names = []string{n}
				if e != "" {
					c.Els = []string{e}
				}
				out = append(out, c)
			}
		}
	case "AllowNoAttrs":
		if o.Scope != "els" || len(o.Els) < 2 {
			return nil
		}
		for _, e := range o.Els {
			c := o
			c.Els = []string{e}
			out = append(out, c)
		}
	default:
		return nil
	}
	return out
}

// cbHook is called at the start of every harness-supplied callback; the C13
// scheduler makes it a scheduling point.  nil elsewhere.
var cbHook func(name string)

func hook(name string) {
	if cbHook != nil {
		cbHook(name)
	}
}

func urlPolicyByName(name string) func(*url.URL) bool {
	switch {
	case name == "true":
		return func(u *url.URL) bool { hook("url:true"); return true }
	case name == "false":
		return func(u *url.URL) bool { hook("url:false"); return false }
	case name == "noquery":
		return func(u *url.URL) bool { hook("url:noquery"); return u.RawQuery == "" }
	case strings.HasPrefix(name, "host="):
		h := strings.TrimPrefix(name, "host=")
		return func(u *url.URL) bool { hook("url:host"); return u.Host == h }
	case strings.HasPrefix(name, "panichost="):
		// fault kind: the caller's own callback panics on one host (the panic reaches the caller)
		h := strings.TrimPrefix(name, "panichost=")
		return func(u *url.URL) bool {
			hook("url:panichost")
			if u.Host == h {
				panic("harness callback: refusing " + h)
			}
			return true
		}
	case strings.HasPrefix(name, "pathprefix="):
		pp := strings.TrimPrefix(name, "pathprefix=")
		return func(u *url.URL) bool { hook("url:pathprefix"); return strings.HasPrefix(u.Path, pp) }
	}
	panic("harness: unknown url policy " + name)
}

func rewriterByName(name string) func(*url.URL) {
	switch name {
	case "proxy":
		return func(u *url.URL) {
			hook("rw:proxy")
			if u.Host != "" {
				u.Path = "/proxy/" + u.Host + u.Path
				u.Host = "cdn.example"
				u.Scheme = "https"
			}
		}
	case "addq":
		return func(u *url.URL) {
			hook("rw:addq")
			if u.RawQuery == "" {
				u.RawQuery = "v=1"
			} else {
				u.RawQuery += "&v=1"
			}
		}
	}
	panic("harness: unknown rewriter " + name)
}

func styleHandlerByName(name string) func(string) bool {
	switch name {
	case "true":
		return func(string) bool { hook("sh:true"); return true }
	case "false":
		return func(string) bool { hook("sh:false"); return false }
	case "digits":
		return func(v string) bool {
			hook("sh:digits")
			if v == "" {
				return false
			}
			for _, c := range v {
				if c < '0' || c > '9' {
					return false
				}
			}
			return true
		}
	case "short":
		return func(v string) bool { hook("sh:short"); return len(v) <= 6 }
	case "noparen":
		return func(v string) bool { hook("sh:noparen"); return !strings.Contains(v, "(") }
	}
	// parametrised handlers: every "maxlen=N" (and every "prefix=P") is the SAME function literal
	// with a different captured value, as a handler factory in user code would produce
	if strings.HasPrefix(name, "maxlen=") {
		n := 0
		fmt.Sscan(strings.TrimPrefix(name, "maxlen="), &n)
		return func(v string) bool { hook("sh:maxlen"); return len(v) <= n }
	}
	if strings.HasPrefix(name, "prefix=") {
		pre := strings.TrimPrefix(name, "prefix=")
		return func(v string) bool { hook("sh:prefix"); return strings.HasPrefix(v, pre) }
	}
	panic("harness: unknown style handler " + name)
}

var bmMatchers = map[string]*regexp.Regexp{
	"bm:CellAlign":            bluemonday.CellAlign,
	"bm:CellVerticalAlign":    bluemonday.CellVerticalAlign,
	"bm:Direction":            bluemonday.Direction,
	"bm:ImageAlign":           bluemonday.ImageAlign,
	"bm:Integer":              bluemonday.Integer,
	"bm:ISO8601":              bluemonday.ISO8601,
	"bm:ListType":             bluemonday.ListType,
	"bm:SpaceSeparatedTokens": bluemonday.SpaceSeparatedTokens,
	"bm:Number":               bluemonday.Number,
	"bm:NumberOrPercent":      bluemonday.NumberOrPercent,
	"bm:Paragraph":            bluemonday.Paragraph,
}

// Instance is one policy under construction plus the regexps compiled for it.
// One compiled object per distinct source text per instance, so that two
// element patterns never tie in the canonical map order.
type Instance struct {
	P   *bluemonday.Policy
	res map[string]*regexp.Regexp
}

func NewInstance(base string) *Instance {
	in := &Instance{res: map[string]*regexp.Regexp{}}
	switch base {
	case "new", "":
		in.P = bluemonday.NewPolicy()
	case "ugc":
		in.P = bluemonday.UGCPolicy()
	case "strict":
		in.P = bluemonday.StrictPolicy()
	case "striptags":
		in.P = bluemonday.StripTagsPolicy()
	case "zero":
		// "It is possible that the developer has created the policy via: p := bluemonday.Policy{}"
		// (sanitize.go): the zero value is supported and initialises itself lazily
		in.P = &bluemonday.Policy{}
	default:
		panic("harness: unknown base " + base)
	}
	return in
}

func (in *Instance) re(src string) *regexp.Regexp {
	if r, ok := bmMatchers[src]; ok {
		return r
	}
	if r, ok := in.res[src]; ok {
		return r
	}
	r := regexp.MustCompile(src)
	in.res[src] = r
	return r
}

func sandboxVals(ints []int) []bluemonday.SandboxValue {
	out := make([]bluemonday.SandboxValue, len(ints))
	for i, v := range ints {
		out[i] = bluemonday.SandboxValue(v)
	}
	return out
}

// typedNil gives a nil value of the (unexported) builder type returned by f.
func typedNil[T any](f func(*bluemonday.Policy, ...string) T) (z T) { return }

// Steps splits one op into its separately schedulable API calls: a builder
// chain `AllowAttrs(..).Matching(..).OnElements(..)` is three steps.
func (in *Instance) Steps(o Op) []func() {
	p := in.P
	one := func(f func()) []func() { return []func(){f} }
	switch o.K {
	case "AllowElements":
		return one(func() { p.AllowElements(o.Names...) })
	case "AllowElementsMatching":
		return one(func() { p.AllowElementsMatching(in.re(o.Re)) })
	case "AllowAttrs", "AllowNoAttrs":
		b := typedNil((*bluemonday.Policy).AllowAttrs)
		var steps []func()
		if o.K == "AllowAttrs" {
			steps = append(steps, func() { b = p.AllowAttrs(o.Names...) })
			if o.NoAttrs {
				steps = append(steps, func() { b = b.AllowNoAttrs() })
			}
		} else {
			steps = append(steps, func() { b = p.AllowNoAttrs() })
		}
		if o.Re != "" {
			steps = append(steps, func() { b = b.Matching(in.re(o.Re)) })
		}
		switch o.Scope {
		case "els":
			steps = append(steps, func() { b.OnElements(o.Els...) })
		case "elsre":
			steps = append(steps, func() { b.OnElementsMatching(in.re(o.ElRe)) })
		case "glob":
			steps = append(steps, func() { b.Globally() })
		default:
			panic("harness: attr chain without scope")
		}
		if o.Scope2 != "" && o.Re2 != "" {
			steps = append(steps, func() { b = b.Matching(in.re(o.Re2)) })
		}
		switch o.Scope2 {
		case "els":
			steps = append(steps, func() { b.OnElements(o.Els2...) })
		case "elsre":
			steps = append(steps, func() { b.OnElementsMatching(in.re(o.ElRe2)) })
		case "glob":
			steps = append(steps, func() { b.Globally() })
		}
		return steps
	case "AllowStyles":
		b := typedNil((*bluemonday.Policy).AllowStyles)
		steps := []func(){func() { b = p.AllowStyles(o.Names...) }}
		switch {
		case o.Fn != "":
			steps = append(steps, func() { b = b.MatchingHandler(styleHandlerByName(o.Fn)) })
		case len(o.Enum) > 0:
			steps = append(steps, func() { b = b.MatchingEnum(o.Enum...) })
		case o.Re != "":
			steps = append(steps, func() { b = b.Matching(in.re(o.Re)) })
		}
		switch o.Scope {
		case "els":
			steps = append(steps, func() { b.OnElements(o.Els...) })
		case "elsre":
			steps = append(steps, func() { b.OnElementsMatching(in.re(o.ElRe)) })
		case "glob":
			steps = append(steps, func() { b.Globally() })
		default:
			panic("harness: style chain without scope")
		}
		if o.Scope2 != "" {
			switch {
			case o.Fn2 != "":
				steps = append(steps, func() { b = b.MatchingHandler(styleHandlerByName(o.Fn2)) })
			case len(o.Enum2) > 0:
				steps = append(steps, func() { b = b.MatchingEnum(o.Enum2...) })
			case o.Re2 != "":
				steps = append(steps, func() { b = b.Matching(in.re(o.Re2)) })
			}
			switch o.Scope2 {
			case "els":
				steps = append(steps, func() { b.OnElements(o.Els2...) })
			case "elsre":
				steps = append(steps, func() { b.OnElementsMatching(in.re(o.ElRe2)) })
			case "glob":
				steps = append(steps, func() { b.Globally() })
			}
		}
		return steps
	case "AllowURLSchemes":
		return one(func() { p.AllowURLSchemes(o.Names...) })
	case "AllowURLSchemeWithCustomPolicy":
		return one(func() { p.AllowURLSchemeWithCustomPolicy(o.Names[0], urlPolicyByName(o.Fn)) })
	case "AllowURLSchemesMatching":
		return one(func() { p.AllowURLSchemesMatching(in.re(o.Re)) })
	case "RequireParseableURLs":
		return one(func() { p.RequireParseableURLs(o.B) })
	case "AllowRelativeURLs":
		return one(func() { p.AllowRelativeURLs(o.B) })
	case "RequireNoFollowOnLinks":
		return one(func() { p.RequireNoFollowOnLinks(o.B) })
	case "RequireNoFollowOnFullyQualifiedLinks":
		return one(func() { p.RequireNoFollowOnFullyQualifiedLinks(o.B) })
	case "RequireNoReferrerOnLinks":
		return one(func() { p.RequireNoReferrerOnLinks(o.B) })
	case "RequireNoReferrerOnFullyQualifiedLinks":
		return one(func() { p.RequireNoReferrerOnFullyQualifiedLinks(o.B) })
	case "AddTargetBlankToFullyQualifiedLinks":
		return one(func() { p.AddTargetBlankToFullyQualifiedLinks(o.B) })
	case "RequireCrossOriginAnonymous":
		return one(func() { p.RequireCrossOriginAnonymous(o.B) })
	case "RequireSandboxOnIFrame":
		return one(func() { p.RequireSandboxOnIFrame(sandboxVals(o.Ints)...) })
	case "AllowIFrames":
		return one(func() { p.AllowIFrames(sandboxVals(o.Ints)...) })
	case "AllowDataAttributes":
		return one(func() { p.AllowDataAttributes() })
	case "AllowComments":
		return one(func() { p.AllowComments() })
	case "AddSpaceWhenStrippingTag":
		return one(func() { p.AddSpaceWhenStrippingTag(o.B) })
	case "SkipElementsContent":
		return one(func() { p.SkipElementsContent(o.Names...) })
	case "AllowElementsContent":
		return one(func() { p.AllowElementsContent(o.Names...) })
	case "AllowDataURIImages":
		return one(func() { p.AllowDataURIImages() })
	case "RewriteSrc":
		return one(func() { p.RewriteSrc(rewriterByName(o.Fn)) })
	case "AllowUnsafe":
		return one(func() { p.AllowUnsafe(o.B) })
	case "AllowStandardURLs":
		return one(func() { p.AllowStandardURLs() })
	case "AllowStandardAttributes":
		return one(func() { p.AllowStandardAttributes() })
	case "AllowStyling":
		return one(func() { p.AllowStyling() })
	case "AllowImages":
		return one(func() { p.AllowImages() })
	case "AllowLists":
		return one(func() { p.AllowLists() })
	case "AllowTables":
		return one(func() { p.AllowTables() })
	}
	panic("harness: unknown op " + o.K)
}

func (in *Instance) Apply(o Op) {
	for _, s := range in.Steps(o) {
		s()
	}
}

// BuildPolicy constructs a finished policy from a recipe.
func BuildPolicy(r Recipe) *bluemonday.Policy {
	in := NewInstance(r.Base)
	for _, o := range r.Ops {
		in.Apply(o)
	}
	return in.P
}
