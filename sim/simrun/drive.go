package main

import (
	"bytes"
	"encoding/base64"
	"encoding/json"
	"fmt"
	"os"
	"os/exec"
	"path/filepath"
	"runtime"
	"sort"
	"strconv"
	"strings"
	"sync"
	"time"
)

// ---- worker ----

type WorkerOut struct {
	Shard      int               `json:"shard"`
	Runs       int64             `json:"runs"`
	Evals      int64             `json:"evals"`
	Nontrivial map[string]int64  `json:"nontrivial"` // plan digest -> non-trivial executions in that plan
	Counters   map[string]int64  `json:"counters"`
	Violations []Violation       `json:"violations"`
	ViolCount  map[string]int64  `json:"viol_count"`
	Samples    []json.RawMessage `json:"samples"`
	Notes      map[string]int64  `json:"notes"`
	Seeds      []uint64          `json:"seeds"`
	RunDigests int               `json:"distinct_run_digests"`
	Error      string            `json:"error,omitempty"`
}

type workerCfg struct {
	prop     string
	tier     string
	seeds    []uint64
	shard    int
	nshards  int
	count    int           // plans per seed (0 = until deadline)
	perSeed  time.Duration // time budget per seed when count == 0
	out      string
	journal  string
	maxViols int
	isoEvery int // every n-th plan is also run alone in a pristine child process (0: never)
}

func runWorker(cfg workerCfg) int {
	eng := engines[cfg.prop]
	if eng == nil {
		fmt.Fprintln(os.Stderr, "unknown property", cfg.prop)
		return 2
	}
	wo := WorkerOut{Shard: cfg.shard, Nontrivial: map[string]int64{}, Counters: map[string]int64{}, ViolCount: map[string]int64{},
		Notes: map[string]int64{}, Seeds: cfg.seeds}
	digests := map[string]bool{}
	var jf *os.File
	if cfg.journal != "" {
		jf, _ = os.Create(cfg.journal)
		defer jf.Close()
	}
	for _, seed := range cfg.seeds {
		deadline := time.Now().Add(cfg.perSeed)
		for idx := cfg.shard; ; idx += cfg.nshards {
			if cfg.count > 0 && idx >= cfg.count {
				break
			}
			if cfg.count == 0 && time.Now().After(deadline) {
				break
			}
			plan := mustJSON(eng.Gen(seed, idx, cfg.tier))
			if jf != nil {
				// which plan is executing, should the process die (race runtime exit, watchdog)
				jf.Truncate(0)
				jf.WriteAt(plan, 0)
			}
			res, err := eng.Run(plan)
			if err != nil {
				wo.Error = fmt.Sprintf("seed %d idx %d: %v", seed, idx, err)
				writeJSON(cfg.out, wo)
				return 2
			}
			wo.Runs++
			wo.Evals += res.Evals
			if _, dup := wo.Nontrivial[res.PlanDigest]; !dup && res.Nontrivial > 0 {
				wo.Nontrivial[res.PlanDigest] = res.Nontrivial
			}
			digests[res.Digest] = true
			mergeCounters(wo.Counters, res.Counters)
			for _, n := range res.Notes {
				k := n
				if len(k) > 80 {
					k = k[:80]
				}
				wo.Notes[k]++
			}
			// Every so often the same plan is also executed alone in a pristine child process: a
			// different result means the library's answer depends on what this process did before
			// (state kept across independent calls and policies).
			if ho := historyOracle[cfg.prop]; ho != "" && wo.Runs > 3 && cfg.isoEvery > 0 && int(wo.Runs)%cfg.isoEvery == 0 && wo.ViolCount[ho+"|history"] == 0 {
				wd := filepath.Dir(cfg.out)
				if alone, err := execPlanFresh(wd, plan, cfg.prop); err == nil {
					wo.Counters["pristine_process_comparisons"]++
					if alone.Digest != res.Digest && alone.Digest != "free-mode" && res.Digest != "free-mode" {
						res.Violations = append(res.Violations, Violation{Property: cfg.prop, Oracle: ho, Site: "history",
							Detail: "plan result differs between a pristine process and this worker, which ran other plans first", Plan: plan})
					}
				}
			}
			for _, v := range res.Violations {
				v.StreamSeed, v.Idx, v.Shard, v.NShards = seed, idx, cfg.shard, cfg.nshards
				v.GOMAXPROCS = runtime.GOMAXPROCS(0)
				key := v.Oracle + "|" + v.Site
				wo.ViolCount[key]++
				if wo.ViolCount[key] <= 2 && len(wo.Violations) < cfg.maxViols {
					wo.Violations = append(wo.Violations, v)
					wo.RunDigests = len(digests)
					writeJSON(cfg.out, wo) // keep what was found should this process be killed later (runaway memory, stall)
				}
			}
			if wo.Runs%100 == 0 {
				wo.RunDigests = len(digests)
				writeJSON(cfg.out, wo)
			}
			if len(wo.Samples) < 2 && res.Nontrivial > 0 {
				wo.Samples = append(wo.Samples, json.RawMessage(plan))
			}
		}
	}
	wo.RunDigests = len(digests)
	if err := writeJSON(cfg.out, wo); err != nil {
		fmt.Fprintln(os.Stderr, err)
		return 2
	}
	return 0
}

func writeJSON(path string, v interface{}) error {
	b, err := json.Marshal(v)
	if err != nil {
		return err
	}
	return os.WriteFile(path, b, 0o644)
}

// ---- known findings ----

type Finding struct {
	Property string `json:"property"`
	Status   string `json:"status"` // known | fixed
	Commit   string `json:"commit,omitempty"`
	Match    struct {
		Oracle         string `json:"oracle,omitempty"`
		Site           string `json:"site,omitempty"`
		DetailContains string `json:"detail_contains,omitempty"`
	} `json:"match"`
	What string `json:"what"`
}

type FindingsFile struct {
	Findings []Finding `json:"findings"`
}

func loadFindings(path string) FindingsFile {
	var ff FindingsFile
	b, err := os.ReadFile(path)
	if err != nil {
		return ff
	}
	if err := json.Unmarshal(b, &ff); err != nil {
		fmt.Fprintln(os.Stderr, "known findings file unreadable:", err)
		os.Exit(2)
	}
	return ff
}

func (ff FindingsFile) match(v Violation) *Finding {
	for i := range ff.Findings {
		f := &ff.Findings[i]
		if f.Status != "known" || f.Property != v.Property {
			continue
		}
		if f.Match.Oracle != "" && f.Match.Oracle != v.Oracle {
			continue
		}
		if f.Match.Site != "" && f.Match.Site != v.Site {
			continue
		}
		if f.Match.DetailContains != "" && !strings.Contains(v.Detail, f.Match.DetailContains) {
			continue
		}
		return f
	}
	return nil
}

// ---- driver ----

type driveCfg struct {
	prop      string
	tier      string
	seed      uint64
	workers   int
	budget    time.Duration // thorough: total exploration time
	evidence  string
	known     string
	replays   string
	workdir   string
	instrRep  string
	extraInfo map[string]interface{}
}

func self() string {
	p, err := os.Executable()
	if err != nil {
		return os.Args[0]
	}
	return p
}

// maxRSS: a child whose resident set grows beyond this is killed (the sandbox has no memory
// limit of its own, and a changed library may grow without bound).
func maxRSSBytes() int64 {
	mb := int64(6144)
	if v, err := strconv.ParseInt(os.Getenv("VERIF_MAX_RSS_MB"), 10, 64); err == nil && v > 0 {
		mb = v
	}
	return mb << 20
}

func rssOf(pid int) int64 {
	b, err := os.ReadFile(fmt.Sprintf("/proc/%d/statm", pid))
	if err != nil {
		return 0
	}
	f := strings.Fields(string(b))
	if len(f) < 2 {
		return 0
	}
	pages, _ := strconv.ParseInt(f[1], 10, 64)
	return pages * int64(os.Getpagesize())
}

func execSelf(timeout time.Duration, env []string, args ...string) ([]byte, []byte, int) {
	return execSelfWatched(timeout, "", 0, env, args...)
}

// execSelfWatched also kills the child when its RSS explodes, or when the journal file it
// rewrites at the start of every plan has not changed for `stall`.
// Exit codes: 124 wall-clock watchdog, 125 memory watchdog, 126 stalled on one plan.
func execSelfWatched(timeout time.Duration, journal string, stall time.Duration, env []string, args ...string) ([]byte, []byte, int) {
	cmd := exec.Command(self(), args...)
	cmd.Env = append(os.Environ(), env...)
	var so, se bytes.Buffer
	cmd.Stdout, cmd.Stderr = &so, &se
	if err := cmd.Start(); err != nil {
		return nil, []byte(err.Error()), 2
	}
	done := make(chan error, 1)
	go func() { done <- cmd.Wait() }()
	deadline := time.After(timeout)
	tick := time.NewTicker(300 * time.Millisecond)
	defer tick.Stop()
	limit := maxRSSBytes()
	started := time.Now()
	for {
		select {
		case err := <-done:
			if err != nil {
				if ee, ok := err.(*exec.ExitError); ok {
					return so.Bytes(), se.Bytes(), ee.ExitCode()
				}
				return so.Bytes(), se.Bytes(), 2
			}
			return so.Bytes(), se.Bytes(), 0
		case <-deadline:
			cmd.Process.Kill()
			<-done
			return so.Bytes(), append(se.Bytes(), []byte("\nwatchdog: killed after "+timeout.String())...), 124
		case <-tick.C:
			if rss := rssOf(cmd.Process.Pid); rss > limit {
				cmd.Process.Kill()
				<-done
				return so.Bytes(), append(se.Bytes(), []byte(fmt.Sprintf("\nwatchdog: killed, resident set %d MB exceeds %d MB", rss>>20, limit>>20))...), 125
			}
			if journal != "" && stall > 0 && time.Since(started) > stall {
				if fi, err := os.Stat(journal); err == nil && time.Since(fi.ModTime()) > stall {
					cmd.Process.Kill()
					<-done
					return so.Bytes(), append(se.Bytes(), []byte("\nwatchdog: killed, one plan ran longer than "+stall.String())...), 126
				}
			}
		}
	}
}

// execPlanFresh runs one plan in a fresh process and returns its result.
// execPlanFreshFor re-executes for a violation class; the race runtime's verdict on a
// serialised run can be masked by happens-before edges from sync.Pool inside package
// regexp (DESIGN §2.4), so a data-race class gets a few fresh-process attempts.
func execPlanFreshFor(workdir string, plan []byte, prop string, v Violation) (*RunResult, error) {
	// a changed library may itself be nondeterministic (sync.Pool sharing depends on which P a
	// task runs on, and under -race Pool.Put drops at random): a few attempts, first under the
	// GOMAXPROCS of the process that saw the violation
	gmps := []int{v.GOMAXPROCS, v.GOMAXPROCS}
	if strings.HasPrefix(v.Oracle, "C15/cli-") {
		// what a CLI child sees on its stdin pipe depends on kernel timing the simulator does not own
		gmps = []int{v.GOMAXPROCS, v.GOMAXPROCS, v.GOMAXPROCS, v.GOMAXPROCS, v.GOMAXPROCS, v.GOMAXPROCS}
	}
	if prop == "C13" {
		gmps = []int{v.GOMAXPROCS, v.GOMAXPROCS, 2, 16, 1, v.GOMAXPROCS, 2, 1}
	}
	var rr *RunResult
	var err error
	defer func() { freshGOMAXPROCS = 0 }()
	for _, g := range gmps {
		freshGOMAXPROCS = g
		rr, err = execPlanFresh(workdir, plan, prop)
		if err == nil && sameClass(rr, v) != nil {
			return rr, nil
		}
	}
	return rr, err
}

// freshGOMAXPROCS, when >0, is the GOMAXPROCS of the next fresh processes (default: the per-property value).
var freshGOMAXPROCS int

func execPlanFresh(workdir string, plan []byte, prop string) (*RunResult, error) {
	os.MkdirAll(workdir, 0o755)
	f, err := os.CreateTemp(workdir, "cand-*.json")
	if err != nil {
		return nil, err
	}
	f.Write(plan)
	f.Close()
	defer os.Remove(f.Name())
	cfg := driveCfg{prop: prop, workdir: workdir}
	gmp := workerGOMAXPROCS(cfg, 0)
	if freshGOMAXPROCS > 0 {
		gmp = freshGOMAXPROCS
	}
	outFile := f.Name() + ".result"
	defer os.Remove(outFile)
	_, se, code := execSelf(120*time.Second, append(workerEnvBase(cfg), fmt.Sprintf("GOMAXPROCS=%d", gmp)), "exec-plan", "-prop", prop, "-plan", f.Name(), "-out", outFile)
	if code != 0 {
		return nil, fmt.Errorf("exec-plan exit %d: %s", code, tail(se, 600))
	}
	so, err := os.ReadFile(outFile)
	if err != nil {
		return nil, fmt.Errorf("exec-plan result: %v", err)
	}
	var rr RunResult
	if err := json.Unmarshal(so, &rr); err != nil {
		return nil, fmt.Errorf("exec-plan output: %v: %s", err, tail(so, 300))
	}
	return &rr, nil
}

func tail(b []byte, n int) string {
	if len(b) > n {
		return "…" + string(b[len(b)-n:])
	}
	return string(b)
}

func sameClass(rr *RunResult, v Violation) *Violation {
	if rr == nil {
		return nil
	}
	for i := range rr.Violations {
		if rr.Violations[i].Oracle == v.Oracle && rr.Violations[i].Site == v.Site {
			return &rr.Violations[i]
		}
	}
	for i := range rr.Violations {
		if rr.Violations[i].Oracle == v.Oracle {
			return &rr.Violations[i]
		}
	}
	return nil
}

func drive(cfg driveCfg) int {
	start := time.Now()
	eng := engines[cfg.prop]
	if eng == nil {
		fmt.Fprintln(os.Stderr, "unknown property", cfg.prop)
		return 2
	}
	os.MkdirAll(cfg.workdir, 0o755)
	os.MkdirAll(cfg.replays, 0o755)
	os.MkdirAll(filepath.Dir(cfg.evidence), 0o755)
	known := loadFindings(cfg.known)

	fmt.Printf("# %s %s: VERIF_SEED=%d workers=%d\n", cfg.prop, cfg.tier, cfg.seed, cfg.workers)
	if rep, ok := readInstrReport(cfg.instrRep).(map[string]interface{}); ok {
		ns, nskip := 0, 0
		if sites, ok := rep["sites"].([]interface{}); ok {
			for _, s := range sites {
				ns++
				if m, ok := s.(map[string]interface{}); ok && m["mode"] == "skipped" {
					nskip++
					fmt.Printf("# WARNING: map-order seam not installed at %v: %v\n", m["label"], m["reason"])
				}
			}
		}
		if ws, ok := rep["warnings"].([]interface{}); ok {
			for _, w := range ws {
				fmt.Printf("# WARNING: instrumenter: %v\n", w)
			}
		}
		fmt.Printf("# map-order seam: %d range-over-map sites instrumented, %d left to the Go runtime\n", ns-nskip, nskip)
	}

	// 1. determinism self-test: same plans, fresh processes, different GOMAXPROCS
	stSeeds := 30
	if cfg.tier == "thorough" {
		stSeeds = 200
	}
	st := selfTest(cfg, stSeeds)
	selfTestDead := st.Error != "" && st.Processes < 2
	if selfTestDead {
		// The self-test processes died (on the unchanged tree they never do: a tree that makes them
		// crash, stall or outgrow the memory watchdog is being looked at).  Exploration may still
		// find and confirm a violation; with none, the check exits 2 at the end.
		fmt.Printf("# WARNING: determinism self-test could not run: %s\n", tail([]byte(st.Error), 400))
	}
	nondeterministic := st.Mismatches > 0
	if nondeterministic {
		// Identical plans gave different results in fresh processes.  On the unchanged tree this never
		// happens; when it does, either the tree under test behaves nondeterministically or the
		// machinery is broken.  Keep exploring: a confirmed violation explains it, otherwise exit 2.
		fmt.Printf("# WARNING: determinism self-test: %d mismatches between fresh processes running identical plans (%s)\n", st.Mismatches, st.Error)
	} else {
		fmt.Printf("# determinism self-test: %d plans x %d processes (GOMAXPROCS %v) + %d single-plan processes, 0 mismatches\n", st.Plans, st.Processes, st.GOMAXPROCS, st.Isolated)
	}

	// 2. exploration
	seeds := []uint64{cfg.seed}
	count := eng.CasesQuick
	var perSeed time.Duration
	if cfg.tier == "thorough" {
		seeds = []uint64{cfg.seed, Mix(cfg.seed, 1), Mix(cfg.seed, 2)}
		count = 0
		perSeed = cfg.budget / time.Duration(len(seeds))
	}
	var seedStrs []string
	for _, s := range seeds {
		seedStrs = append(seedStrs, strconv.FormatUint(s, 10))
	}
	isoEvery := 5
	if cfg.tier == "thorough" {
		isoEvery = 40
	}
	outs := make([]WorkerOut, cfg.workers)
	codes := make([]int, cfg.workers)
	stderrs := make([][]byte, cfg.workers)
	var wg sync.WaitGroup
	exploreStart := time.Now()
	for w := 0; w < cfg.workers; w++ {
		wg.Add(1)
		go func(w int) {
			defer wg.Done()
			out := filepath.Join(cfg.workdir, fmt.Sprintf("worker-%d.json", w))
			args := []string{"worker", "-prop", cfg.prop, "-tier", cfg.tier, "-seeds", strings.Join(seedStrs, ","),
				"-shard", strconv.Itoa(w), "-nshards", strconv.Itoa(cfg.workers), "-count", strconv.Itoa(count),
				"-per-seed", perSeed.String(), "-out", out, "-journal", filepath.Join(cfg.workdir, fmt.Sprintf("journal-%d.json", w)),
				"-iso-every", strconv.Itoa(isoEvery)}
			to := 30 * time.Minute
			if cfg.tier == "thorough" {
				to = cfg.budget + 20*time.Minute
			}
			_, se, code := execSelfWatched(to, filepath.Join(cfg.workdir, fmt.Sprintf("journal-%d.json", w)), 3*time.Minute, workerEnv(cfg, w), args...)
			codes[w], stderrs[w] = code, se
			if b, err := os.ReadFile(out); err == nil {
				json.Unmarshal(b, &outs[w])
			}
		}(w)
	}
	wg.Wait()
	exploreWall := time.Since(exploreStart)

	var all []Violation
	var deadWorkers []string
	for w := 0; w < cfg.workers; w++ {
		if codes[w] != 0 {
			// A worker that dies (crash in the library under test, memory or time watchdog) yields no
			// verdict by itself.  The others' findings still count; with none, the check exits 2.
			msg := fmt.Sprintf("worker %d exited %d: %s %s", w, codes[w], outs[w].Error, tail(stderrs[w], 1500))
			fmt.Printf("# WARNING: %s\n", msg)
			deadWorkers = append(deadWorkers, msg)
		}
	}

	// merge
	tot := WorkerOut{Nontrivial: map[string]int64{}, Counters: map[string]int64{}, ViolCount: map[string]int64{}, Notes: map[string]int64{}}
	for _, o := range outs {
		tot.Runs += o.Runs
		tot.Evals += o.Evals
		for k, v := range o.Nontrivial {
			if _, dup := tot.Nontrivial[k]; !dup {
				tot.Nontrivial[k] = v
			}
		}
		mergeCounters(tot.Counters, o.Counters)
		mergeCounters(tot.ViolCount, o.ViolCount)
		mergeCounters(tot.Notes, o.Notes)
		all = append(all, o.Violations...)
		tot.RunDigests += o.RunDigests
		if len(tot.Samples) < 3 {
			tot.Samples = append(tot.Samples, o.Samples...)
		}
	}
	var distinctNT int64
	for _, v := range tot.Nontrivial {
		distinctNT += v
	}

	// 3. violations: group by class, shrink, confirm in a fresh process, classify
	sort.SliceStable(all, func(i, j int) bool {
		return all[i].Oracle+"|"+all[i].Site < all[j].Oracle+"|"+all[j].Site
	})
	seen := map[string]bool{}
	exit := 0
	nViol, nKnown := 0, 0
	var reported []map[string]interface{}
	var unconfirmed []string
	all = append(all, st.historyViolations...)
	for _, v := range all {
		key := v.Oracle + "|" + v.Site
		if seen[key] {
			continue
		}
		seen[key] = true
		final, confirmed, note := minimiseAndConfirm(cfg, eng, v)
		if !confirmed {
			fmt.Printf("# NOTE: %s was seen by a worker but did not reproduce in a fresh process, neither alone nor after the plans that ran before it (%s)\n", key, note)
			unconfirmed = append(unconfirmed, key)
			continue
		}
		path := filepath.Join(cfg.replays, fmt.Sprintf("%s-%s.json", cfg.prop, digestBytes(final.Plan, []byte(final.Oracle), mustJSON(final.Prefix))))
		rf := map[string]interface{}{"property": final.Property, "oracle": final.Oracle, "site": final.Site, "detail": final.Detail,
			"plan": final.Plan, "observed": final.Observed, "expected": final.Expected, "verif_seed": cfg.seed,
			"minimisation": note, "replay": fmt.Sprintf("/verif/bin/check replay %s", path)}
		if final.GOMAXPROCS > 0 || v.GOMAXPROCS > 0 {
			g := final.GOMAXPROCS
			if g == 0 {
				g = v.GOMAXPROCS
			}
			rf["gomaxprocs"] = g
		}
		if len(final.Prefix) > 0 {
			rf["prefix"] = final.Prefix
			rf["prefix_note"] = "the violation shows only after these plans ran earlier in the same process: the library keeps state across independent calls/policies"
		}
		if eng.Describe != nil {
			rf["plan_shape"] = eng.Describe(final.Plan)
		}
		writeJSONIndent(path, rf)
		if f := known.match(final); f != nil {
			fmt.Printf("KNOWN-FINDING: property=%s %s [%s site=%s] replay=%s\n", cfg.prop, f.What, final.Oracle, final.Site, path)
			nKnown++
		} else {
			fmt.Printf("VIOLATION property=%s replay=%s\n", cfg.prop, path)
			fmt.Printf("  oracle=%s site=%s\n  %s\n", final.Oracle, final.Site, final.Detail)
			nViol++
			exit = 1
		}
		reported = append(reported, map[string]interface{}{"oracle": final.Oracle, "site": final.Site, "replay": path, "occurrences": tot.ViolCount[key]})
	}

	// 4. evidence
	wall := time.Since(start).Seconds()
	cov := map[string]interface{}{
		"evaluations":            tot.Evals,
		"distinct_nontrivial":    distinctNT,
		"rule":                   ruleText[cfg.prop],
		"samples":                samplesOf(tot.Samples),
		"exhaustive":             false,
		"plans_run":              tot.Runs,
		"distinct_plans":         len(tot.Nontrivial),
		"distinct_run_digests":   tot.RunDigests,
		"distinct_interleavings": distinctInterleavings(cfg.prop, tot),
		"seeds":                  seedStrs,
		"runs_per_hour":          int64(float64(tot.Runs) / exploreWall.Hours()),
		"evaluations_per_hour":   int64(float64(tot.Evals) / exploreWall.Hours()),
		"explore_wall_s":         exploreWall.Seconds(),
		"simulated_time":         "not applicable: the library reads no clock and sets no timer; logical time is counted in scheduler/stream steps (see counters)",
		"counters":               tot.Counters,
		"notes":                  tot.Notes,
		"determinism_selftest":   st,
		"violations_reported":    reported,
		"unconfirmed_classes":    unconfirmed,
		"dead_workers":           deadWorkers,
		"real_components":        realComponents,
		"simulated_components":   simulatedComponents[cfg.prop],
		"uncontrolled":           uncontrolled[cfg.prop],
		"workers":                cfg.workers,
		"gomaxprocs_per_worker":  []int{workerGOMAXPROCS(cfg, 0), workerGOMAXPROCS(cfg, 1), workerGOMAXPROCS(cfg, 2), workerGOMAXPROCS(cfg, 3)},
		"zero_probes":            zeroProbes(cfg.prop, tot.Counters),
		"instrumentation_report": readInstrReport(cfg.instrRep),
	}
	for k, v := range cfg.extraInfo {
		cov[k] = v
	}
	ev := map[string]interface{}{
		"property_id": cfg.prop,
		"tier":        cfg.tier,
		"seed":        int64(cfg.seed & 0x7fffffffffffffff),
		"level":       levelOf[cfg.prop],
		"coverage":    cov,
		"assumptions": assumptions[cfg.prop],
		"wall_s":      wall,
		"violations":  nViol,
	}
	if err := writeJSONIndent(cfg.evidence, ev); err != nil {
		fmt.Println("MACHINERY: cannot write evidence:", err)
		return 2
	}
	for _, z := range zeroProbes(cfg.prop, tot.Counters) {
		fmt.Printf("# WARNING: probe never hit in this run: %s\n", z)
	}
	fmt.Printf("# %s %s: plans=%d evaluations=%d distinct_nontrivial=%d violations=%d known=%d wall=%.1fs (%.0f plans/h)\n",
		cfg.prop, cfg.tier, tot.Runs, tot.Evals, distinctNT, nViol, nKnown, wall, float64(tot.Runs)/exploreWall.Hours())
	if tot.Runs == 0 || distinctNT < 2 {
		fmt.Println("MACHINERY: nothing non-trivial was explored")
		return 2
	}
	if exit == 0 && len(deadWorkers) > 0 {
		fmt.Printf("MACHINERY: %d worker(s) died and no violation was confirmed: %s\n", len(deadWorkers), deadWorkers[0])
		return 2
	}
	if exit == 0 && nKnown == 0 && len(unconfirmed) > 0 {
		fmt.Printf("MACHINERY: %d violation class(es) seen during exploration could not be reproduced in a fresh process: %v\n", len(unconfirmed), unconfirmed)
		return 2
	}
	if exit == 0 && selfTestDead {
		fmt.Println("MACHINERY: the determinism self-test processes died and no violation was confirmed")
		return 2
	}
	if exit == 0 && nondeterministic {
		fmt.Println("MACHINERY: identical plans gave different results in fresh processes and no violation explains it")
		return 2
	}
	return exit
}

// distinctInterleavings: for C13 every run digest covers the scheduler's event log
// (who ran at which point) and all results, so distinct digests = distinct interleavings x outcomes.
func distinctInterleavings(prop string, tot WorkerOut) interface{} {
	switch prop {
	case "C13":
		return map[string]interface{}{"measure": "distinct digests of (scheduler event log, per-operation results), summed over workers whose plan indices are disjoint", "count": tot.RunDigests}
	case "C17":
		return map[string]interface{}{"measure": "distinct digests of (interleaved/permuted/case-mutated/reduced history fingerprints)", "count": tot.RunDigests}
	default:
		return map[string]interface{}{"measure": "single caller: distinct digests of (chunk/fault schedule outcomes)", "count": tot.RunDigests}
	}
}

func writeJSONIndent(path string, v interface{}) error {
	b, err := json.MarshalIndent(v, "", " ")
	if err != nil {
		return err
	}
	return os.WriteFile(path, append(b, '\n'), 0o644)
}

// readable adds a text rendering next to every base64 input of a sample plan.
func readable(v interface{}) {
	m, ok := v.(map[string]interface{})
	if !ok {
		return
	}
	dec := func(x interface{}) interface{} {
		s, ok := x.(string)
		if !ok {
			return nil
		}
		b, err := base64.StdEncoding.DecodeString(s)
		if err != nil {
			return nil
		}
		return clip(b, 400)
	}
	if t := dec(m["input"]); t != nil {
		m["input_text"] = t
	}
	if l, ok := m["inputs"].([]interface{}); ok {
		var ts []interface{}
		for _, x := range l {
			ts = append(ts, dec(x))
		}
		m["inputs_text"] = ts
	}
}

func samplesOf(raw []json.RawMessage) []interface{} {
	var out []interface{}
	for _, r := range raw {
		var v interface{}
		json.Unmarshal(r, &v)
		readable(v)
		out = append(out, v)
		if len(out) == 3 {
			break
		}
	}
	if len(out) == 0 {
		out = append(out, "no non-trivial plan was sampled")
	}
	return out
}

func readInstrReport(path string) interface{} {
	if path == "" {
		return nil
	}
	b, err := os.ReadFile(path)
	if err != nil {
		return nil
	}
	var v interface{}
	json.Unmarshal(b, &v)
	return v
}

// minimisation budget of one check invocation (all violation classes together)
var minimiseDeadline time.Time

func minimiseAndConfirm(cfg driveCfg, eng *Engine, v Violation) (Violation, bool, string) {
	if minimiseDeadline.IsZero() {
		budget := 150 * time.Second
		if v, err := time.ParseDuration(os.Getenv("VERIF_MIN_BUDGET")); err == nil && v > 0 {
			budget = v // e.g. the seeded-change matrix only needs the verdict, not small replays
		}
		minimiseDeadline = time.Now().Add(budget)
	}
	if v.Oracle == historyOracle[cfg.prop] && v.Oracle != "" {
		if len(v.Prefix) == 0 && v.NShards > 0 {
			for i := v.Shard; i < v.Idx; i += v.NShards {
				v.Prefix = append(v.Prefix, json.RawMessage(mustJSON(eng.Gen(v.StreamSeed, i, cfg.tier))))
			}
		}
		if len(v.Prefix) > 0 {
			return confirmHistory(cfg, v)
		}
	}
	fails := func(cand []byte) (out *Violation) {
		defer func() {
			if x := recover(); x != nil { // a harness bug on an odd candidate must not kill the check
				fmt.Printf("# WARNING: candidate plan crashed the harness while minimising: %v\n", x)
				out = nil
			}
		}()
		if eng.InProcessShrink {
			rr, err := eng.Run(cand)
			if err != nil {
				return nil
			}
			return sameClass(rr, v)
		}
		rr, err := execPlanFreshFor(cfg.workdir, cand, cfg.prop, v)
		if err != nil {
			return nil
		}
		return sameClass(rr, v)
	}
	// confirm the unminimised plan first, in a fresh process
	rr, err := execPlanFreshFor(cfg.workdir, v.Plan, cfg.prop, v)
	orig := sameClass(rr, v)
	if orig == nil {
		// Not reproducible alone.  If the library keeps state across independent calls the
		// violation may need the plans that ran before it in the worker: replay that history.
		if sv, ok, note := confirmWithPrefix(cfg, eng, v); ok {
			return sv, true, note
		}
		return v, false, fmt.Sprintf("single plan: %v", err)
	}
	note := "not minimised"
	if time.Now().After(minimiseDeadline) {
		return *orig, true, "confirmed in a fresh process; not minimised (the minimisation budget of this run was used up by earlier classes)"
	}
	if eng.Shrink != nil {
		t0 := time.Now()
		min := eng.Shrink(v.Plan, v, func(c []byte) *Violation {
			if time.Since(t0) > 60*time.Second || time.Now().After(minimiseDeadline) {
				return nil
			}
			return fails(c)
		}, 400)
		if rr2, err := execPlanFreshFor(cfg.workdir, min, cfg.prop, v); err == nil {
			if got := sameClass(rr2, v); got != nil {
				return *got, true, fmt.Sprintf("plan minimised from %d to %d bytes of JSON; minimised plan re-executed in a fresh process and failed the same way", len(v.Plan), len(got.Plan))
			}
		}
		note = "minimised plan did not reproduce in a fresh process; reporting the unminimised plan"
	}
	return *orig, true, note
}

// execSeqFresh runs prefix plans and then the plan in one fresh process; the result is the last plan's.
func execSeqFresh(workdir string, prefix []json.RawMessage, plan []byte, prop string) (*RunResult, error) {
	seq := map[string]interface{}{"sequence": append(append([]json.RawMessage{}, prefix...), json.RawMessage(plan))}
	return execPlanFresh(workdir, mustJSON(seq), prop)
}

// confirmWithPrefix rebuilds the plans the worker ran before the violating one (same stream,
// same shard), replays them plus the plan in a fresh process and shrinks the prefix.
func confirmWithPrefix(cfg driveCfg, eng *Engine, v Violation) (Violation, bool, string) {
	if v.NShards == 0 {
		return v, false, ""
	}
	var prefix []json.RawMessage
	for i := v.Shard; i < v.Idx; i += v.NShards {
		prefix = append(prefix, json.RawMessage(mustJSON(eng.Gen(v.StreamSeed, i, cfg.tier))))
	}
	if len(prefix) > 400 {
		prefix = prefix[len(prefix)-400:]
	}
	if len(prefix) == 0 {
		return v, false, ""
	}
	freshGOMAXPROCS = v.GOMAXPROCS
	defer func() { freshGOMAXPROCS = 0 }()
	check := func(pre []json.RawMessage) *Violation {
		for a := 0; a < 4; a++ {
			rr, err := execSeqFresh(cfg.workdir, pre, v.Plan, cfg.prop)
			if err == nil {
				if got := sameClass(rr, v); got != nil {
					return got
				}
			}
		}
		return nil
	}
	got := check(prefix)
	if got == nil {
		return v, false, ""
	}
	full := len(prefix)
	budget := 40
	// ddmin over the prefix (within the minimisation budget of this run)
	for n := 2; len(prefix) > 0 && budget > 0 && time.Now().Before(minimiseDeadline); {
		chunk := (len(prefix) + n - 1) / n
		reduced := false
		for st := 0; st < len(prefix) && budget > 0; st += chunk {
			en := st + chunk
			if en > len(prefix) {
				en = len(prefix)
			}
			cand := append(append([]json.RawMessage{}, prefix[:st]...), prefix[en:]...)
			budget--
			if g := check(cand); g != nil {
				prefix, got, reduced = cand, g, true
				if n > 2 {
					n--
				}
				break
			}
		}
		if !reduced {
			if chunk <= 1 {
				break
			}
			n *= 2
			if n > len(prefix) {
				n = len(prefix)
			}
		}
	}
	out := *got
	out.Prefix = prefix
	out.Detail += fmt.Sprintf(" [reproduces only after %d earlier plan(s) ran in the same process (shrunk from %d): the library keeps state across independent calls or policies]", len(prefix), full)
	return out, true, fmt.Sprintf("single plan does not fail alone in a fresh process; fails after a prefix of %d earlier plans (shrunk from %d), re-executed in a fresh process", len(prefix), full)
}

// historyOracle: the class reported when a plan's results depend on plans run earlier in the process.
var historyOracle = map[string]string{
	"C13": "C13/depends-on-earlier-calls",
	"C17": "C17/cross-policy-state",
}

// confirmHistory re-checks a history-dependence finding (digest alone != digest after prefix) and shrinks the prefix.
func confirmHistory(cfg driveCfg, v Violation) (Violation, bool, string) {
	alone, err := execPlanFresh(cfg.workdir, v.Plan, cfg.prop)
	if err != nil {
		return v, false, err.Error()
	}
	if alone.Digest == "free-mode" {
		return v, false, "the solo run was not serialised (free-running fallback); no comparison possible"
	}
	differs := func(pre []json.RawMessage) bool {
		rr, err := execSeqFresh(cfg.workdir, pre, v.Plan, cfg.prop)
		return err == nil && rr.Digest != alone.Digest && rr.Digest != "free-mode"
	}
	prefix := v.Prefix
	if !differs(prefix) {
		return v, false, "history dependence did not reproduce"
	}
	// and the solo digest must be stable
	if again, err := execPlanFresh(cfg.workdir, v.Plan, cfg.prop); err != nil || again.Digest != alone.Digest {
		return v, false, "the plan's result is not stable even alone (nondeterminism, not history dependence)"
	}
	full := len(prefix)
	// halve from the front while the difference persists, then drop single plans
	for len(prefix) > 4 {
		if cand := prefix[len(prefix)/2:]; differs(cand) {
			prefix = cand
		} else if cand := prefix[:len(prefix)/2]; differs(cand) {
			prefix = cand
		} else {
			break
		}
	}
	for i, tries := len(prefix)-1, 0; i >= 0 && len(prefix) > 1 && tries < 40; i, tries = i-1, tries+1 {
		cand := append(append([]json.RawMessage{}, prefix[:i]...), prefix[i+1:]...)
		if differs(cand) {
			prefix = cand
		}
	}
	out := v
	out.Prefix = prefix
	out.Detail = fmt.Sprintf("the same plan gives result digest %s when run alone in a fresh process and a different one after %d unrelated plan(s) (shrunk from %d) ran earlier in the same process: results depend on earlier calls on other policies", alone.Digest, len(prefix), full)
	return out, true, "history-dependence confirmed in fresh processes; prefix shrunk"
}

// ---- determinism self-test ----

type SelfTest struct {
	Plans             int    `json:"plans"`
	Processes         int    `json:"processes"`
	GOMAXPROCS        []int  `json:"gomaxprocs"`
	Mismatches        int    `json:"mismatches"`
	Isolated          int    `json:"single_plan_processes"`
	HistoryMismatches int    `json:"history_mismatches"` // plan result differs between "alone in a fresh process" and "after earlier plans"
	Error             string `json:"error,omitempty"`
	historyViolations []Violation
}

func selfTest(cfg driveCfg, n int) (st SelfTest) {
	st = SelfTest{Plans: n}
	procs := []int{1, 4, 16}
	if cfg.tier == "quick" {
		procs = []int{1, 16}
	}
	if cfg.prop == "C13" {
		// the baton scheduler needs spare Ps so that parked tasks keep their own P (DESIGN §2.4)
		procs = []int{1, 16}
		if cfg.tier != "quick" {
			procs = []int{1, 2, 16}
		}
	}
	st.GOMAXPROCS = procs
	var outs [][]byte
	var mu sync.Mutex
	var wg sync.WaitGroup
	type job struct{ gmp, rep int }
	var jobs []job
	for _, g := range procs {
		jobs = append(jobs, job{g, 0})
	}
	jobs = append(jobs, job{procs[len(procs)-1], 1}) // same setting twice as well
	for _, j := range jobs {
		wg.Add(1)
		go func(j job) {
			defer wg.Done()
			so, se, code := execSelf(20*time.Minute, append(workerEnvBase(cfg), fmt.Sprintf("GOMAXPROCS=%d", j.gmp)),
				"digest", "-prop", cfg.prop, "-tier", cfg.tier, "-seed", strconv.FormatUint(Mix(cfg.seed, 0x5e1f), 10), "-n", strconv.Itoa(n))
			mu.Lock()
			defer mu.Unlock()
			if code != 0 {
				st.Error += fmt.Sprintf("digest process (GOMAXPROCS=%d) exit %d: %s; ", j.gmp, code, tail(se, 400))
				return
			}
			outs = append(outs, so)
		}(j)
	}
	wg.Wait()
	st.Processes = len(outs)
	if st.Error != "" || len(outs) < 2 {
		if st.Error == "" {
			st.Error = "too few digest processes finished"
		}
		return st
	}
	for i := range outs {
		outs[i] = digestLines(outs[i])
	}
	ref := strings.Split(string(outs[0]), "\n")
	defer func() {
		if st.Mismatches == 0 {
			isolatedTest(cfg, n, ref, &st)
		}
	}()
	for _, o := range outs[1:] {
		ls := strings.Split(string(o), "\n")
		if len(ls) != len(ref) {
			st.Mismatches++
			continue
		}
		for i := range ls {
			if strings.Contains(ls[i], " free-mode ") || strings.Contains(ref[i], " free-mode ") {
				continue // a run that fell back to free-running (a lock held across a scheduling point, or an overloaded machine) is not comparable
			}
			if ls[i] != ref[i] {
				st.Mismatches++
				if st.Error == "" {
					st.Error = fmt.Sprintf("first mismatch: %q vs %q", ref[i], ls[i])
				}
			}
		}
	}
	return st
}

// isolatedTest runs a sample of the self-test plans each in its own fresh process and compares with
// the sequential processes: a difference means results depend on what ran earlier in the process.
func isolatedTest(cfg driveCfg, n int, ref []string, st *SelfTest) {
	eng := engines[cfg.prop]
	seed := Mix(cfg.seed, 0x5e1f)
	step := 1
	if n > 400 {
		step = n / 400
	}
	type res struct {
		idx  int
		line string
	}
	var mu sync.Mutex
	var got []res
	sem := make(chan struct{}, 12)
	var wg sync.WaitGroup
	for idx := step; idx < n; idx += step { // idx 0 is alone in its process anyway
		wg.Add(1)
		go func(idx int) {
			defer wg.Done()
			sem <- struct{}{}
			defer func() { <-sem }()
			so, _, code := execSelf(10*time.Minute, append(workerEnvBase(cfg), fmt.Sprintf("GOMAXPROCS=%d", workerGOMAXPROCS(cfg, 0))),
				"digest", "-prop", cfg.prop, "-tier", cfg.tier, "-seed", strconv.FormatUint(seed, 10), "-from", strconv.Itoa(idx), "-n", strconv.Itoa(idx+1))
			if code == 0 {
				mu.Lock()
				got = append(got, res{idx, strings.TrimSpace(string(digestLines(so)))})
				mu.Unlock()
			}
		}(idx)
	}
	wg.Wait()
	sort.Slice(got, func(i, j int) bool { return got[i].idx < got[j].idx })
	st.Isolated = len(got)
	for _, g := range got {
		if strings.Contains(g.line, " free-mode ") || (g.idx < len(ref) && strings.Contains(ref[g.idx], " free-mode ")) {
			continue
		}
		if g.idx < len(ref) && strings.TrimSpace(ref[g.idx]) != g.line {
			st.HistoryMismatches++
			if ho := historyOracle[cfg.prop]; ho != "" && len(st.historyViolations) == 0 {
				var prefix []json.RawMessage
				for i := 0; i < g.idx; i++ {
					prefix = append(prefix, json.RawMessage(mustJSON(eng.Gen(seed, i, cfg.tier))))
				}
				st.historyViolations = append(st.historyViolations, Violation{Property: cfg.prop, Oracle: ho, Site: "history",
					Detail: "plan result differs between a fresh process and a process that ran other plans first",
					Plan:   mustJSON(eng.Gen(seed, g.idx, cfg.tier)), Prefix: prefix})
			} else if ho == "" {
				fmt.Printf("# WARNING: plan %d of the self-test stream gives a different result alone than after earlier plans (state kept across calls; no verdict under %s)\n", g.idx, cfg.prop)
			}
		}
	}
}

// digestLines keeps only the digest lines of a digest process (a library under test may print to stdout).
func digestLines(b []byte) []byte {
	var out []string
	for _, l := range strings.Split(string(b), "\n") {
		if strings.HasPrefix(l, "DIGEST ") {
			out = append(out, strings.TrimPrefix(l, "DIGEST "))
		}
	}
	return []byte(strings.Join(out, "\n"))
}

func runDigest(prop, tier string, seed uint64, from, n int) int {
	eng := engines[prop]
	for idx := from; idx < n; idx++ {
		plan := mustJSON(eng.Gen(seed, idx, tier))
		res, err := eng.Run(plan)
		if err != nil {
			fmt.Fprintln(os.Stderr, err)
			return 2
		}
		var vs []string
		for _, v := range res.Violations {
			if v.Oracle == "C13/data-race" {
				// the race runtime de-duplicates equal reports per process; its verdict per run is
				// checked by fresh-process confirmation, not by this digest comparison
				continue
			}
			vs = append(vs, v.Oracle)
		}
		fmt.Printf("\nDIGEST %d %s %s evals=%d nt=%d viol=%v\n", idx, res.PlanDigest, res.Digest, res.Evals, res.Nontrivial, vs)
	}
	return 0
}

// ---- per-property environment ----

func workerEnvBase(cfg driveCfg) []string {
	env := []string{"GOTRACEBACK=single"}
	if cfg.prop == "C13" {
		env = append(env, "GORACE=atexit_sleep_ms=0 halt_on_error=0 exitcode=0 log_path="+filepath.Join(cfg.workdir, "race"),
			"GODEBUG=asyncpreemptoff=1")
	}
	return env
}

// workerGOMAXPROCS: C13 varies it per worker (swarm).  With 16 a parked task tends to keep its own P
// and hence its own sync.Pool shard, which keeps pool-induced happens-before edges rare (race oracle,
// DESIGN §10.2); with 1 or 2 all tasks share the P-local pools, which is what makes a pooled object
// travel from one caller to the next (functional oracles: stale, aliased or doubly released pool entries).
func workerGOMAXPROCS(cfg driveCfg, w int) int {
	if cfg.prop == "C13" {
		return []int{16, 2, 16, 1}[w%4]
	}
	return 1
}

func workerEnv(cfg driveCfg, w int) []string {
	return append(workerEnvBase(cfg), fmt.Sprintf("GOMAXPROCS=%d", workerGOMAXPROCS(cfg, w)))
}

func explainWorkerDeath(cfg driveCfg, w, code int, stderr []byte) *Violation {
	return nil
}

var _ = runtime.NumCPU
