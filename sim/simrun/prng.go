package main

import (
	"encoding/hex"
	"hash/fnv"
)

// RNG is splitmix64: the one and only source of randomness of the simulator.
// Every choice of a run derives from the run seed through one of these.
type RNG struct{ s uint64 }

func NewRNG(seed uint64) *RNG { return &RNG{s: seed} }

func (r *RNG) U64() uint64 {
	r.s += 0x9e3779b97f4a7c15
	z := r.s
	z = (z ^ (z >> 30)) * 0xbf58476d1ce4e5b9
	z = (z ^ (z >> 27)) * 0x94d049bb133111eb
	return z ^ (z >> 31)
}

// Intn returns a value in [0,n); n<=0 yields 0.
func (r *RNG) Intn(n int) int {
	if n <= 1 {
		return 0
	}
	return int(r.U64() % uint64(n))
}

// Range returns a value in [lo,hi].
func (r *RNG) Range(lo, hi int) int {
	if hi <= lo {
		return lo
	}
	return lo + r.Intn(hi-lo+1)
}

func (r *RNG) Float() float64 { return float64(r.U64()>>11) / float64(1<<53) }

func (r *RNG) Bool(p float64) bool { return r.Float() < p }

func (r *RNG) Pick(xs []string) string {
	if len(xs) == 0 {
		return ""
	}
	return xs[r.Intn(len(xs))]
}

func (r *RNG) Perm(n int) []int {
	p := make([]int, n)
	for i := range p {
		p[i] = i
	}
	for i := n - 1; i > 0; i-- {
		j := r.Intn(i + 1)
		p[i], p[j] = p[j], p[i]
	}
	return p
}

// Fork derives an independent stream; used so that adding a draw in one
// generator does not shift every later choice of the run.
func (r *RNG) Fork(tag uint64) *RNG { return NewRNG(Mix(r.U64(), tag)) }

func Mix(vs ...uint64) uint64 {
	h := uint64(0x243f6a8885a308d3)
	for _, v := range vs {
		h ^= v + 0x9e3779b97f4a7c15 + (h << 6) + (h >> 2)
		h = (h ^ (h >> 30)) * 0xbf58476d1ce4e5b9
		h = (h ^ (h >> 27)) * 0x94d049bb133111eb
		h ^= h >> 31
	}
	return h
}

func strTag(s string) uint64 {
	h := fnv.New64a()
	h.Write([]byte(s))
	return h.Sum64()
}

func digestBytes(parts ...[]byte) string {
	h := fnv.New64a()
	for _, p := range parts {
		h.Write(p)
		h.Write([]byte{0xff})
	}
	return hex.EncodeToString(h.Sum(nil))
}
