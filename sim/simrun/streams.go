package main

import (
	"errors"
	"fmt"
	"io"
	"os"
	"syscall"
)

// ---- simulated source ("network") ----

// RFault makes the source fail with a non-EOF error once `At` bytes have been
// delivered.  WithData: the error accompanies the last delivered chunk
// (n>0, err), which the io.Reader contract explicitly allows.
type RFault struct {
	At       int    `json:"at"`
	Kind     string `json:"kind"`
	WithData bool   `json:"with_data,omitempty"`
}

// ReadPlan is the chunk schedule of one source.
type ReadPlan struct {
	Chunks      []int   `json:"chunks,omitempty"` // n>0: deliver up to n bytes; 0: return (0,nil); exhausted: everything
	EOFWithData bool    `json:"eof_with_data,omitempty"`
	Scribble    bool    `json:"scribble,omitempty"` // garbage in p[n:], legal per io.Reader
	Fault       *RFault `json:"fault,omitempty"`
}

var errSentinel = errors.New("verifsim: injected source failure")

func readErr(kind string) error {
	switch kind {
	case "unexpectedEOF":
		return io.ErrUnexpectedEOF
	case "closedPipe":
		return io.ErrClosedPipe
	case "deadline":
		return os.ErrDeadlineExceeded
	case "eintr":
		return syscall.EINTR
	case "wrappedEOF":
		// not io.EOF: "Read must return EOF itself, not an error wrapping EOF, because callers
		// will test for EOF using ==" (io.Reader).  A source that reports an upstream truncation
		// this way has failed, and a sanitizer that treats it as a clean end silently truncates.
		return errWrappedEOF
	default:
		return errSentinel
	}
}

var errWrappedEOF = fmt.Errorf("verifsim: upstream connection reset before the document ended: %w", io.EOF)

var readErrKinds = []string{"sentinel", "unexpectedEOF", "closedPipe", "deadline", "eintr", "wrappedEOF"}

// SimReader implements io.Reader over private data following a ReadPlan.
// Only legal reader behaviour is produced: never n>len(p), never more than 3
// consecutive empty reads, p is never retained.
type SimReader struct {
	data  []byte
	plan  ReadPlan
	pos   int
	step  int
	zeros int
	yield func(kind string) // scheduling point (C13); nil otherwise

	Calls      int
	ZeroReads  int
	FaultFired bool
	Boundaries []int // offsets at which a Read call ended (for reach counters)
}

func NewSimReader(data []byte, plan ReadPlan) *SimReader {
	return &SimReader{data: data, plan: plan}
}

func (s *SimReader) Read(p []byte) (int, error) {
	if s.yield != nil {
		s.yield("read")
	}
	s.Calls++
	limit := len(s.data)
	var ferr error
	if f := s.plan.Fault; f != nil {
		ferr = readErr(f.Kind)
		if f.At < limit {
			limit = f.At
		}
		if limit < 0 {
			limit = 0
		}
	}
	if s.pos >= limit {
		if ferr != nil {
			s.FaultFired = true
			return 0, ferr
		}
		return 0, io.EOF
	}
	if len(p) == 0 {
		return 0, nil
	}
	want := limit - s.pos
	if s.step < len(s.plan.Chunks) {
		c := s.plan.Chunks[s.step]
		s.step++
		if c <= 0 {
			if s.zeros < 3 {
				s.zeros++
				s.ZeroReads++
				return 0, nil
			}
			c = 1
		}
		if c < want {
			want = c
		}
	}
	s.zeros = 0
	if want > len(p) {
		want = len(p)
	}
	n := copy(p[:want], s.data[s.pos:s.pos+want])
	if s.plan.Scribble {
		// garbage right behind the delivered bytes (a reader may use all of p as scratch space);
		// bounded, so that byte-wise schedules over large buffers stay cheap
		end := len(p)
		if end > n+96 {
			end = n + 96
		}
		for i := n; i < end; i++ {
			p[i] = byte(0xA5 ^ i)
		}
	}
	s.pos += n
	s.Boundaries = append(s.Boundaries, s.pos)
	if s.pos == limit {
		if ferr != nil && s.plan.Fault.WithData {
			s.FaultFired = true
			return n, ferr
		}
		if ferr == nil && s.plan.EOFWithData {
			return n, io.EOF
		}
	}
	return n, nil
}

// ---- simulated destination ("disk") ----

// WFault fails write call number K (0-based).
//
//	perm:  call K and every later call return (0, err)
//	once:  call K returns (0, err); later calls would succeed
//	short: call K accepts N < len bytes and returns (N, err)
//	full:  call K accepts everything and still returns (len, err)
type WFault struct {
	K    int    `json:"k"`
	Kind string `json:"kind"`
	N    int    `json:"n,omitempty"`
	Err  string `json:"err,omitempty"` // which error value the destination returns: "" sentinel | eof | shortwrite | closedpipe
}

var errWrite = errors.New("verifsim: injected destination failure")

// A destination may fail with any error value, including ones the library compares against on
// the *source* side (io.EOF): a failed write is a failed write.
func (f *WFault) err() error {
	switch f.Err {
	case "eof":
		return io.EOF
	case "shortwrite":
		return io.ErrShortWrite
	case "closedpipe":
		return io.ErrClosedPipe
	case "eagain":
		return syscall.EAGAIN // Temporary() == true, Timeout() == true
	case "deadline":
		return os.ErrDeadlineExceeded // Timeout() == true, Temporary() == true
	}
	return errWrite
}

var writeErrKinds = []string{"", "", "eof", "shortwrite", "closedpipe", "eagain", "deadline"}

type writerCore struct {
	fault *WFault
	yield func(kind string)

	Calls          int
	Lens           []int
	Accepted       []byte
	FailedAt       int // -1 until a write has failed
	CallsAfterFail int
	FailedPayload  []byte
	ViaString      int // calls that arrived through WriteString
}

func (c *writerCore) write(b []byte, viaString bool) (int, error) {
	if c.yield != nil {
		c.yield("write")
	}
	idx := c.Calls
	c.Calls++
	c.Lens = append(c.Lens, len(b))
	if viaString {
		c.ViaString++
	}
	if c.FailedAt >= 0 {
		c.CallsAfterFail++
	}
	if f := c.fault; f != nil {
		switch {
		case f.Kind == "perm" && idx >= f.K:
			if c.FailedAt < 0 {
				c.FailedAt = idx
				c.FailedPayload = append([]byte{}, b...)
			}
			return 0, f.err()
		case idx == f.K:
			c.FailedAt = idx
			c.FailedPayload = append([]byte{}, b...)
			switch f.Kind {
			case "once":
				return 0, f.err()
			case "short":
				n := f.N
				if n >= len(b) {
					n = len(b) - 1
				}
				if n < 0 {
					n = 0
				}
				c.Accepted = append(c.Accepted, b[:n]...)
				return n, f.err()
			case "full":
				c.Accepted = append(c.Accepted, b...)
				return len(b), f.err()
			}
		}
	}
	c.Accepted = append(c.Accepted, b...)
	return len(b), nil
}

// SimStringWriter offers both Write and WriteString.
type SimStringWriter struct{ writerCore }

func (w *SimStringWriter) Write(b []byte) (int, error)       { return w.write(b, false) }
func (w *SimStringWriter) WriteString(s string) (int, error) { return w.write([]byte(s), true) }

// SimRichWriter offers WriteString plus the optional methods real destinations have
// (bufio.Writer, gzip.Writer, os.File): Flush, Sync, Close.  They all succeed and are recorded;
// a library that lets their result replace an earlier error loses that error.
type SimRichWriter struct {
	writerCore
	Flushes, Syncs, Closes int
}

func (w *SimRichWriter) Write(b []byte) (int, error)       { return w.write(b, false) }
func (w *SimRichWriter) WriteString(s string) (int, error) { return w.write([]byte(s), true) }
func (w *SimRichWriter) Flush() error                      { w.Flushes++; return nil }
func (w *SimRichWriter) Sync() error                       { w.Syncs++; return nil }
func (w *SimRichWriter) Close() error                      { w.Closes++; return nil }

// SimPlainFlusher: Write only (adapter path) plus Flush.
type SimPlainFlusher struct {
	writerCore
	Flushes int
}

func (w *SimPlainFlusher) Write(b []byte) (int, error) { return w.write(b, false) }
func (w *SimPlainFlusher) Flush() error                { w.Flushes++; return nil }

// SimPlainWriter offers Write only, forcing the library's adapter path.
type SimPlainWriter struct{ writerCore }

func (w *SimPlainWriter) Write(b []byte) (int, error) { return w.write(b, false) }

func newWriter(kind string, f *WFault) (io.Writer, *writerCore) {
	switch kind {
	case "rich":
		w := &SimRichWriter{writerCore: writerCore{fault: f, FailedAt: -1}}
		return w, &w.writerCore
	case "plainflush":
		w := &SimPlainFlusher{writerCore: writerCore{fault: f, FailedAt: -1}}
		return w, &w.writerCore
	case "plain":
		w := &SimPlainWriter{writerCore{fault: f, FailedAt: -1}}
		return w, &w.writerCore
	default:
		w := &SimStringWriter{writerCore{fault: f, FailedAt: -1}}
		return w, &w.writerCore
	}
}

// ---- chunk schedule generation ----

func genChunks(r *RNG, n int) ReadPlan {
	rp := ReadPlan{}
	switch r.Intn(8) {
	case 0: // all at once
	case 1: // one byte per read
		k := n
		if k > 6000 {
			k = 6000
		}
		rp.Chunks = make([]int, k)
		for i := range rp.Chunks {
			rp.Chunks[i] = 1
		}
	case 2: // fixed k
		k := r.Range(2, 9)
		for got := 0; got < n; got += k {
			rp.Chunks = append(rp.Chunks, k)
		}
	case 3: // two chunks
		if n > 0 {
			rp.Chunks = []int{r.Range(1, n)}
		}
	case 4: // an empty read before every small chunk, for the whole input: many empty reads in total, never 4 in a row
		k := r.Range(1, 3)
		for got := 0; got < n && len(rp.Chunks) < 16000; got += k {
			for z, nz := 0, r.Range(1, 3); z < nz; z++ {
				rp.Chunks = append(rp.Chunks, 0)
			}
			rp.Chunks = append(rp.Chunks, k)
		}
	default: // random sizes with empty reads sprinkled
		max := r.Pick([]string{"3", "8", "40", "700", "5000"})
		m := 0
		for _, c := range max {
			m = m*10 + int(c-'0')
		}
		for got := 0; got < n && len(rp.Chunks) < 8000; {
			if r.Bool(0.1) {
				rp.Chunks = append(rp.Chunks, 0)
				continue
			}
			c := r.Range(1, m)
			rp.Chunks = append(rp.Chunks, c)
			got += c
		}
	}
	rp.EOFWithData = r.Bool(0.3)
	rp.Scribble = r.Bool(0.3)
	return rp
}
