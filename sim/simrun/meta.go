package main

import "strings"

var levelOf = map[string]string{
	"C13": "exploration",
	"C15": "exploration",
	"C16": "fault_enumeration",
	"C17": "exploration",
}

var ruleText = map[string]string{
	"C16": "plan = (policy recipe, input, chunk schedule) drawn from VERIF_SEED; each plan enumerates every write index (all when the fault-free run makes <=64 writes, boundary-biased sample otherwise) x {permanent, transient-once, short(0), short(n), full-then-error} x destination kinds {WriteString-capable, Write-only, and on small cases the same two with Flush/Sync/Close} with the error value drawn from {sentinel, io.EOF, io.ErrShortWrite, io.ErrClosedPipe, EAGAIN, deadline}, every source offset (all when len<=256) x {error alone, error with data} x 6 error kinds (incl. an error wrapping io.EOF) x {SanitizeReaderToWriter, SanitizeReader}, plus sampled combined source+destination faults. An execution is non-trivial when its injected fault actually fired (the failing Write/Read call was reached); distinct = distinct (plan digest, fault) pairs, plans de-duplicated by digest of recipe+input+schedule.",
	"C15": "plan = (policy recipe, input, chunk schedules, writer kinds) drawn from VERIF_SEED; each plan compares Sanitize, SanitizeBytes, SanitizeReader and SanitizeReaderToWriter under every schedule (all-at-once, 1 byte, fixed, random with empty reads, an empty read before every chunk, data+EOF, scratch scribbling, splits clustered at syntactic marks and at 4096*2^k), every two-chunk split position when len<=256 (exhaustive sub-space), early EOF positions, a retention check (results re-read after later unrelated calls), a canary behind the caller's []byte, giant single tokens (70 KB - 1.1 MB) and, for 8% of the plans, both CLI binaries fed over a pipe in scheduled chunks (a quarter of those with 70-200 KB of stdin). An execution is non-trivial when the source was delivered in >=2 Read calls or through a Write-only destination or through a CLI process; distinct = distinct (plan digest, schedule) pairs.",
	"C13": "plan = (policy recipe, 2-6 caller tasks x 1-4 operations, schedule mode {uniform with stickiness 0/0.5/0.9, PCT depth 2-4}, map-order mode {canonical, reversed, fresh random permutation per visit; also applied while the shared policy is constructed}) drawn from VERIF_SEED; tasks are serialised by the simulator's baton at every Read, Write, user callback, map-iteration and (instrumented) sync/atomic use inside the library. Every 7th plan (quick; 40th thorough) is also executed alone in a pristine child process and the result digests compared. A plan is non-trivial when at least two tasks were actually interleaved (>=1 context switch between unfinished tasks); distinct = distinct plan digests among those.",
	"C17": "plan = history of builder steps over 1-3 policy instances (chains split into separately scheduled steps, some builders used for two scope calls, rule piles and same-slot collisions, toggled switches) plus the transformations: step-interleaving (every other plan also calls Sanitize between builder steps), isolation (other instances and fresh shipped policies extended afterwards), permutation within commutation classes, ASCII case mutation of names, reduction of dead/redundant switch settings; compared behaviourally on ~550 probe inputs against the canonical build; sampled plans are also run alone in a pristine process. A sub-check is non-trivial when the transformed history differs from the canonical one in at least two positions (interleave: >=2 instance switches; recent: >=1 call dropped); distinct = distinct plan digests.",
}

var assumptions = map[string][]string{
	"C16": {
		"destination never returns n<len with a nil error (io.Writer contract); source never returns n>len(p), never more than 3 consecutive empty reads",
		"a wrapped io.EOF is not injected (whether it is 'non-EOF' is ambiguous)",
		"no prefix claim after a *source* failure: the tokenizer legitimately flushes a partial token",
		"fault-free output is taken from the same build of the same tree (no hard-coded expectations)",
		"sampled over cases (policies, inputs); exhaustive over fault positions only within each small case",
	},
	"C15": {
		"non-blank inputs only for cross-entry-point equality; blank = empty or ASCII-whitespace-only for the 'unchanged' clause",
		"CLI expectations come from this repository's independent transcription of the two documented policies (cli_policies.go)",
		"kernel pipe delivery timing to the CLI child is not controlled (the tools read all of stdin before any library code runs)",
	},
	"C13": {
		"the Go race runtime (ThreadSanitizer) reports every conflicting access pair not ordered by happens-before; the baton uses raw syscalls so the harness adds no happens-before edges between tasks",
		"sync.Pool inside package regexp adds genuine happens-before edges that can mask a conflicting pair in a given execution; many interleavings per policy compensate",
		"construction is finished before the policy is shared (as the property states); callbacks are deterministic functions of their argument (one of them panics on one host, as an injected fault)",
		"map iteration order is controlled only at `range` statements of bluemonday's own packages (instrumented scratch copy), not inside dependencies",
	},
	"C17": {
		"comparison is behavioural (Sanitize on probe inputs derived from the rule set), not structural",
		"write sets of switch-like builder calls are taken from their doc comments (switch model in c17.go)",
		"monotonicity of added rules is deliberately not asserted",
	},
}

var realComponents = []string{
	"bluemonday (instrumented scratch copy of /repo's working tree: only the headers of range-over-map loops differ)",
	"golang.org/x/net/html tokenizer", "aymerick/douceur + gorilla/css", "net/url", "regexp", "Go runtime",
}

var simulatedComponents = map[string][]string{
	"C16": {"io.Reader source (chunk schedule, faults)", "io.Writer destination (fault schedule, call record)", "map iteration order (canonical)"},
	"C15": {"io.Reader source (chunk schedule, early EOF, scribbling)", "io.Writer destination kinds", "stdin chunking of the CLI children", "map iteration order (canonical)"},
	"C13": {"caller goroutine scheduling (baton)", "io.Reader / io.Writer of each caller", "user callbacks (scheduling points)", "map iteration order (canonical / reversed / random per visit)"},
	"C17": {"order and interleaving of builder calls", "map iteration order (canonical / random per visit)"},
}

var uncontrolled = map[string][]string{
	"C16": {},
	"C15": {"kernel pipe buffering between the harness and the CLI child processes"},
	"C13": {"which P a parked task resumes on (affects only sync.Pool happens-before edges, not results)"},
	"C17": {},
}

// probes that must not stay at zero in a healthy run
var probes = map[string][]string{
	"C16": {"wfault_fired.perm", "wfault_fired.once", "wfault_fired.short", "wfault_fired.full",
		"wfault_site.comment", "wfault_site.start-tag", "wfault_site.end-tag", "wfault_site.self-closing-tag", "wfault_site.text",
		"wfault_site.space", "wfault_site.raw-text",
		"rfault_pos.in-tag", "rfault_pos.in-comment", "rfault_pos.in-text", "rfault_pos.at-eof", "rfault_with_data",
		"combined_fired", "adapter_path_cases"},
	"C15": {"cli_execs.sanitise_ugc", "cli_execs.sanitise_html_email", "two_chunk_splits", "early_eof_execs", "adapter_path_execs",
		"blank_inputs", "retention_checks", "multi_read_execs", "long_inputs", "writer.sw", "writer.plain", "writer.buf", "writer.builder"},
	"C13": {"context_switches", "points.read", "points.write", "points.cb", "points.map", "ops.Sanitize", "ops.SanitizeBytes",
		"ops.SanitizeReader", "ops.SanitizeReaderToWriter", "ops_with_fault", "map_order.canonical", "map_order.reversed", "map_order.random",
		"callbacks", "callback_panic_fired", "map_site_visits_ge2keys.*", "map_site_perms.*"},
	"C17": {"check.interleave", "check.isolation", "check.order", "check.case", "check.recent", "check.reuse", "check.split", "recent_calls_dropped", "instance_switches", "sanitize_between_builder_calls"},
}

var thoroughOnlyProbes = map[string]bool{"rfault_pos.buffer-boundary": true}

func zeroProbes(prop string, c map[string]int64) []string {
	var out []string
	for _, p := range probes[prop] {
		if strings.HasSuffix(p, "*") {
			hit := false
			for k, v := range c {
				if strings.HasPrefix(k, strings.TrimSuffix(p, "*")) && v > 0 {
					hit = true
				}
			}
			if !hit {
				out = append(out, p)
			}
			continue
		}
		if c[p] == 0 {
			out = append(out, p)
		}
	}
	return out
}

var _ = strings.TrimSpace
