package main

import (
	"bytes"
	"encoding/json"
	"fmt"
	"regexp"
	"sort"
	"strings"

	"github.com/microcosm-cc/bluemonday"
)

// C17 — a policy is its rule set: independent of call order, case and other
// instances.  A run is a history of builder steps over 1-3 policy instances;
// the seeded scheduler interleaves, permutes, case-mutates and toggle-reduces
// it, and every resulting policy is compared behaviourally with the same rule
// set built alone, in the given (canonical) order, from lower-case names.

type C17Instance struct {
	Base string `json:"base"`
	Ops  []Op   `json:"ops"`
}

type C17Plan struct {
	Property  string        `json:"property"`
	RunSeed   uint64        `json:"run_seed"`
	Idx       int           `json:"idx"`
	Instances []C17Instance `json:"instances"`
	Schedule  []int         `json:"schedule,omitempty"` // interleaving choices; exhausted: PRNG(run_seed)
	Only      string        `json:"only,omitempty"`     // restrict to one sub-check: interleave|isolation|order|case|reuse|split|recent
}

// ---- the small executable model of switch-like options ----

type effect struct {
	key  string
	kind string // set | append
	val  string
}

// effectsOf lists what a builder call writes, taken from the doc comments of
// the builder methods; rule reports whether the call also adds element,
// attribute or style rules (those accumulate and are never dead).
func effectsOf(o Op) (effs []effect, rule bool) {
	b := fmt.Sprint(o.B)
	set := func(k, v string) { effs = append(effs, effect{k, "set", v}) }
	switch o.K {
	case "AllowElements", "AllowElementsMatching", "AllowAttrs", "AllowNoAttrs", "AllowStyles",
		"AllowStandardAttributes", "AllowStyling", "AllowLists", "AllowTables":
		rule = true
	case "AllowURLSchemes":
		set("urlparse", "true")
		for _, s := range o.Names {
			set("scheme:"+strings.ToLower(s), "any")
		}
	case "AllowURLSchemeWithCustomPolicy":
		set("urlparse", "true")
		effs = append(effs, effect{"scheme:" + strings.ToLower(o.Names[0]), "append", o.Fn})
	case "AllowURLSchemesMatching":
		effs = append(effs, effect{"schemeres", "append", o.Re})
	case "RequireParseableURLs":
		set("urlparse", b)
	case "AllowRelativeURLs":
		set("urlparse", "true")
		set("relative", b)
	case "RequireNoFollowOnLinks":
		set("nofollow", b)
		set("urlparse", "true")
	case "RequireNoFollowOnFullyQualifiedLinks":
		set("nofollowfq", b)
		set("urlparse", "true")
	case "RequireNoReferrerOnLinks":
		set("noreferrer", b)
		set("urlparse", "true")
	case "RequireNoReferrerOnFullyQualifiedLinks":
		set("noreferrerfq", b)
		set("urlparse", "true")
	case "AddTargetBlankToFullyQualifiedLinks":
		set("targetblank", b)
		set("urlparse", "true")
	case "RequireCrossOriginAnonymous":
		set("crossorigin", b)
	case "RequireSandboxOnIFrame":
		set("sandbox", fmt.Sprint(o.Ints))
	case "AllowIFrames":
		set("sandbox", fmt.Sprint(o.Ints))
		rule = true
	case "AllowDataAttributes":
		set("dataattrs", "true")
	case "AllowComments":
		set("comments", "true")
	case "AddSpaceWhenStrippingTag":
		set("spaces", b)
	case "SkipElementsContent":
		for _, n := range o.Names {
			set("skip:"+strings.ToLower(n), "true")
		}
	case "AllowElementsContent":
		for _, n := range o.Names {
			set("skip:"+strings.ToLower(n), "false")
		}
	case "AllowDataURIImages":
		set("urlparse", "true")
		effs = append(effs, effect{"scheme:data", "append", "builtin-image-data-uri"})
	case "RewriteSrc":
		set("rewriter", o.Fn)
	case "AllowUnsafe":
		set("unsafe", b)
	case "AllowStandardURLs":
		set("urlparse", "true")
		set("relative", "true")
		set("scheme:mailto", "any")
		set("scheme:http", "any")
		set("scheme:https", "any")
		set("nofollow", "true")
	case "AllowImages":
		rule = true
		set("urlparse", "true")
		set("relative", "true")
		set("scheme:mailto", "any")
		set("scheme:http", "any")
		set("scheme:https", "any")
		set("nofollow", "true")
	default:
		panic("harness: no effect model for " + o.K)
	}
	return
}

// conflict: the relative order of a and b is observable.
func conflict(a, b Op) bool {
	ea, _ := effectsOf(a)
	eb, _ := effectsOf(b)
	for _, x := range ea {
		for _, y := range eb {
			if x.key != y.key {
				continue
			}
			switch {
			case x.kind == "set" && y.kind == "set":
				if x.val != y.val {
					return true
				}
			case x.kind == "append" && y.kind == "append":
				// registrations accumulate; any-match semantics
			default:
				return true
			}
		}
	}
	return false
}

// elements whose content no policy skips by default (the documented default skip list names only
// invisible-content elements: script, style, iframe, object, title, noscript, ...)
var visibleContentEls = map[string]bool{"div": true, "p": true, "span": true, "b": true, "i": true, "my-el": true, "x-el": true, "my-widget": true,
	"td": true, "li": true, "a": true, "h1": true, "blockquote": true, "pre": true, "code": true, "my-box": true, "x-foo": true}

// booleans a blank policy starts with ("nothing allowed or permitted")
var blankDefaults = map[string]string{"urlparse": "false", "relative": "false", "nofollow": "false", "nofollowfq": "false",
	"noreferrer": "false", "noreferrerfq": "false", "targetblank": "false", "crossorigin": "false", "dataattrs": "false",
	"comments": "false", "spaces": "false", "unsafe": "false"}

// reduceHistory repeatedly drops one call all of whose effects are dead (a
// later call sets the same key) or redundant (the key provably already has
// that value, given the calls still present), until none is left.  Dropping
// one call at a time and recomputing keeps every step sound on its own.
func reduceHistory(base string, ops []Op) (out []Op, dropped int) {
	out = append([]Op{}, ops...)
	for {
		idx := removableIndex(base, out)
		if idx < 0 {
			return out, dropped
		}
		out = append(out[:idx:idx], out[idx+1:]...)
		dropped++
	}
}

func removableIndex(base string, ops []Op) int {
	blank := base == "new" || base == "strict" || base == "striptags" || base == "zero"
	state := map[string]string{}
	if blank {
		for k, v := range blankDefaults {
			state[k] = v
		}
	}
	// value of a key before the current call, if it is known
	lookup := func(k string) (string, bool) {
		if v, ok := state[k]; ok {
			return v, v != "?"
		}
		if blank && strings.HasPrefix(k, "scheme:") {
			return "absent", true // a blank policy has no scheme registered
		}
		if strings.HasPrefix(k, "skip:") && visibleContentEls[strings.TrimPrefix(k, "skip:")] {
			return "false", true // no constructor skips the content of an ordinary visible-content element
		}
		return "", false
	}
	effs := make([][]effect, len(ops))
	rules := make([]bool, len(ops))
	for i, o := range ops {
		effs[i], rules[i] = effectsOf(o)
	}
	for i := range ops {
		removable := !rules[i] && len(effs[i]) > 0
		for _, x := range effs[i] {
			if !removable {
				break
			}
			before, known := lookup(x.key)
			if x.kind == "set" && known && before == x.val {
				continue // redundant
			}
			// dead: the next call that touches the key sets it; or (scheme registrations) the
			// key goes from absent/any to any and the next toucher appends a custom check, which
			// gives the one-element list either way
			dead := false
		scan:
			for k := i + 1; k < len(ops); k++ {
				for _, y := range effs[k] {
					if y.key != x.key {
						continue
					}
					if y.kind == "set" {
						dead = true
					} else if x.kind == "set" && x.val == "any" && known && (before == "absent" || before == "any") {
						dead = true
					}
					break scan
				}
			}
			if !dead {
				removable = false
			}
		}
		if removable {
			return i
		}
		for _, x := range effs[i] {
			if x.kind == "set" {
				state[x.key] = x.val
			} else {
				state[x.key] = "?" // a registration list is not tracked as a value
			}
		}
	}
	return -1
}

// ---- generation ----

func genC17(seed uint64, idx int, tier string) interface{} {
	rs := Mix(seed, strTag("C17"), uint64(idx))
	r := NewRNG(rs)
	pl := &C17Plan{Property: "C17", RunSeed: rs, Idx: idx}
	n := []int{1, 2, 2, 3}[r.Intn(4)]
	maxOps := 40
	if tier == "thorough" {
		n = []int{1, 2, 3, 3, 4}[r.Intn(5)]
		maxOps = 60
	}
	for i := 0; i < n; i++ {
		ir := r.Fork(uint64(10 + i))
		fresh := fmt.Sprintf("%d", idx)
		opt := GenOpts{Fresh: fresh, WantComments: 0.3, WantSpaces: 0.3, WantUnsafe: 0.15, WantCallback: 0.5, WantPatterns: ir.Bool(0.5)}
		rc := GenRecipe(ir, opt)
		ops := rc.Ops
		ops = append(ops, genCollisions(ir)...)
		ops = append(ops, genToggles(ir)...)
		// keep histories bounded
		p := ir.Perm(len(ops))
		shuffled := make([]Op, 0, len(ops))
		for _, j := range p {
			shuffled = append(shuffled, ops[j])
		}
		if len(shuffled) > maxOps {
			shuffled = shuffled[:maxOps]
		}
		base := rc.Base
		if ir.Bool(0.12) {
			base = "zero"
		}
		pl.Instances = append(pl.Instances, C17Instance{Base: base, Ops: shuffled})
	}
	return pl
}

// genCollisions: several rules for the same slot with different matchers —
// they must accumulate whatever the order.
func genCollisions(r *RNG) []Op {
	var out []Op
	if r.Bool(0.6) {
		name := r.Pick([]string{"title", "align", "width", "lang", "value"})
		scope := r.Pick([]string{"els", "elsre", "glob"})
		els := subset(r, []string{"p", "div", "span", "my-el", "x-el", "td"}, 1, 2)
		elre := r.Pick(elPatterns)
		pats := subset(r, valuePatterns, 2, 3)
		for _, pat := range pats {
			o := Op{K: "AllowAttrs", Names: []string{name}, Re: pat, Scope: scope}
			switch scope {
			case "els":
				o.Els = els
			case "elsre":
				o.ElRe = elre
			}
			out = append(out, o)
		}
		if scope == "els" {
			out = append(out, Op{K: "AllowElements", Names: els})
			// one call binding several pairs, then different rules for single members of the group
			grp := subset(r, []string{"p", "div", "span", "td", "th", "my-el"}, 2, 3)
			out = append(out, Op{K: "AllowAttrs", Names: []string{name, "lang"}, Re: r.Pick(valuePatterns), Scope: "els", Els: grp})
			for _, m := range grp {
				out = append(out, Op{K: "AllowAttrs", Names: []string{name}, Re: r.Pick(valuePatterns), Scope: "els", Els: []string{m}})
			}
			out = append(out, Op{K: "AllowElements", Names: grp})
		}
	}
	if r.Bool(0.6) {
		prop := r.Pick([]string{"color", "text-align", "x-prop", "width"})
		scope := r.Pick([]string{"els", "elsre", "glob"})
		els := subset(r, []string{"p", "div", "span", "my-el", "x-el"}, 1, 2)
		elre := r.Pick(elPatterns)
		variants := []Op{
			{K: "AllowStyles", Names: []string{prop}, Enum: []string{"red", "center"}},
			{K: "AllowStyles", Names: []string{prop}, Re: `^[0-9]+px$`},
			{K: "AllowStyles", Names: []string{prop}, Fn: "digits"},
			{K: "AllowStyles", Names: []string{prop}, Enum: []string{"blue", "left"}},
			{K: "AllowStyles", Names: []string{prop}, Re: `^#[0-9a-f]{3}$`},
			{K: "AllowStyles", Names: []string{prop}, Fn: "maxlen=3"},
			{K: "AllowStyles", Names: []string{prop}, Fn: "prefix=b"},
			{K: "AllowStyles", Names: []string{prop}, Fn: "prefix=1"},
		}
		for _, i := range r.Perm(len(variants))[:r.Range(2, 4)] {
			o := variants[i]
			o.Scope = scope
			switch scope {
			case "els":
				o.Els = els
			case "elsre":
				o.ElRe = elre
			}
			out = append(out, o)
		}
		out = append(out, Op{K: "AllowElements", Names: els})
		if scope == "elsre" {
			out = append(out, Op{K: "AllowElementsMatching", Re: elre})
		}
	}
	if r.Bool(0.5) {
		s := r.Pick([]string{"http", "https", "app", "ftp"})
		for _, fn := range subset(r, urlPolicyNames, 2, 3) {
			out = append(out, Op{K: "AllowURLSchemeWithCustomPolicy", Names: []string{s}, Fn: fn})
		}
		if r.Bool(0.4) {
			out = append(out, Op{K: "AllowURLSchemes", Names: []string{s}})
		}
		out = append(out, Op{K: "AllowAttrs", Names: []string{"href"}, Scope: "els", Els: []string{"a"}},
			Op{K: "AllowAttrs", Names: []string{"src"}, Scope: "els", Els: []string{"img"}})
	}
	return out
}

var boolSwitches = []string{"RequireParseableURLs", "AllowRelativeURLs", "RequireNoFollowOnLinks", "RequireNoFollowOnFullyQualifiedLinks",
	"RequireNoReferrerOnLinks", "RequireNoReferrerOnFullyQualifiedLinks", "AddTargetBlankToFullyQualifiedLinks",
	"RequireCrossOriginAnonymous", "AddSpaceWhenStrippingTag", "AllowUnsafe"}

// genToggles: repeated and toggled switch-like options.
func genToggles(r *RNG) []Op {
	var out []Op
	for i, n := 0, r.Range(0, 3); i < n; i++ {
		k := r.Pick(boolSwitches)
		for j, m := 0, r.Range(1, 3); j < m; j++ {
			out = append(out, Op{K: k, B: r.Bool(0.5)})
		}
	}
	if r.Bool(0.4) {
		el := r.Pick([]string{"script", "style", "title", "iframe", "div", "my-el", "p"})
		for j, m := 0, r.Range(1, 3); j < m; j++ {
			if r.Bool(0.5) {
				out = append(out, Op{K: "SkipElementsContent", Names: []string{el}})
			} else {
				out = append(out, Op{K: "AllowElementsContent", Names: []string{el}})
			}
		}
	}
	if r.Bool(0.3) {
		out = append(out, Op{K: "RequireSandboxOnIFrame", Ints: genSandbox(r)}, Op{K: "AllowIFrames", Ints: genSandbox(r)},
			Op{K: "AllowAttrs", Names: []string{"src"}, Scope: "els", Els: []string{"iframe"}})
	}
	if r.Bool(0.3) {
		out = append(out, Op{K: "RewriteSrc", Fn: "proxy"}, Op{K: "RewriteSrc", Fn: "addq"})
	}
	if r.Bool(0.5) {
		out = append(out, Op{K: "AllowAttrs", Names: []string{"href", "rel", "target"}, Scope: "els", Els: []string{"a", "area", "link"}},
			Op{K: "AllowAttrs", Names: []string{"src", "crossorigin"}, Scope: "els", Els: []string{"img", "video", "audio"}})
	}
	return out
}

// ---- probes ----

func upperASCII(s string) string { return strings.ToUpper(s) }

func probesFor(r *RNG, all []Op, fresh string) [][]byte {
	seen := map[string]bool{}
	var out [][]byte
	perOpCap := false
	perOpN := 0
	add := func(s string) {
		if perOpCap && perOpN >= 14 {
			return
		}
		if !seen[s] && len(out) < 760 {
			seen[s] = true
			out = append(out, []byte(s))
			perOpN++
		}
	}
	custom := append([]string{}, customEls...)
	matchEls := func(re string) []string {
		var ms []string
		rx := regexp.MustCompile(re)
		for _, c := range custom {
			if rx.MatchString(c) {
				ms = append(ms, c)
			}
		}
		if len(ms) > 3 {
			ms = ms[:3]
		}
		return ms
	}
	elsOf := func(o Op) []string {
		var out []string
		switch o.Scope {
		case "els":
			out = append(out, o.Els...)
		case "elsre":
			out = append(out, matchEls(o.ElRe)...)
		default:
			out = append(out, "p", "my-el", "a")
		}
		switch o.Scope2 {
		case "els":
			out = append(out, o.Els2...)
		case "elsre":
			out = append(out, matchEls(o.ElRe2)...)
		case "glob":
			out = append(out, "p", "my-el", "a")
		}
		return out
	}
	valsOf := func(re string) []string {
		if v, ok := valueSamples[re]; ok {
			return v
		}
		return []string{"x", "12", "left"}
	}
	for _, s := range []string{
		`<a href="http://example.com/" rel="x" target="_self">l</a><a href="/rel">r</a><a href="http://example.com/" target="_blank">b</a>`,
		`<area href="https://example.org/a?b=c"><link href="http://example.com/x.css" rel="stylesheet">`,
		`<img src="http://example.com/a.png" crossorigin="use-credentials"><video src="//cdn.example/v.mp4"></video><audio src="rel.mp3" crossorigin></audio>`,
		`<iframe sandbox="allow-forms allow-scripts allow-forms bogus" src="http://example.com/"></iframe><iframe src="https://example.org/"></iframe>`,
		`<iframe src="http://example.com/" sandbox="allow-downloads allow-downloads-without-user-activation allow-forms allow-modals allow-orientation-lock allow-pointer-lock allow-popups allow-popups-to-escape-sandbox allow-presentation allow-same-origin allow-scripts allow-storage-access-by-user-activation allow-top-navigation allow-top-navigation-by-user-activation"></iframe>`,
		`a<!-- c -->b<zzz>c</zzz>d<p data-x="1" data-UP="2">e</p>`,
		`<script>var a=1<2;</script><style>p{color:red}</style><title>t</title>after`,
		`<img src="data:image/png;base64,iVBORw0KGgo="><img src="data:text/html;base64,PHNjcmlwdD4=">`,
		`<a href="mailto:a@b.c">m</a><a href="ftp://f.example/x">f</a><a href="app://open/x">a</a><a href="tel:+123">t</a><a href="javascript:alert(1)">j</a>`,
		`<blockquote cite="http://example.com/">q</blockquote><q cite="/rel">q</q><del cite="http://bad.example/" datetime="2020-01-02">d</del>`,
		`<p title="Hello world" id="i1" lang="en" dir="rtl" class="c1 c2" style="color: red; text-align: center">p</p>`,
		`<my-el title="abc" align="left" width="7">m</my-el><x-el title="ABC" width="1234">x</x-el><my-widget lang="ok-1">w</my-widget>`,
		`<div>text<noscript>n</noscript><object>o</object><iframe>i</iframe></div>`,
		`<bdo>b</bdo><bdo dir="rtl">b</bdo><span>s</span><font color="red">f</font>`,
	} {
		add(s)
	}
	perOpCap = true
	for _, o := range all {
		perOpN = 0
		switch o.K {
		case "AllowElements":
			for _, n := range o.Names {
				add("<" + n + ">t</" + n + ">")
				add("<" + upperASCII(n) + " title=\"Hello world\" id=i1>t</" + upperASCII(n) + ">")
			}
		case "AllowElementsMatching":
			for _, n := range matchEls(o.Re) {
				add("<" + n + ">t</" + n + "><" + n + " title=\"a\"/>")
			}
		case "AllowAttrs", "AllowNoAttrs":
			for _, el := range elsOf(o) {
				add("<" + el + ">bare</" + el + ">")
				for _, a := range o.Names {
					vals := []string{"x", "12", "Hello world"}
					if o.Re != "" {
						vals = valsOf(o.Re)
					}
					if o.Re2 != "" {
						vals = append(append([]string{}, vals...), valsOf(o.Re2)...)
					}
					if a == "href" || a == "src" || a == "cite" {
						vals = []string{"http://example.com/", "/rel", "javascript:alert(1)"}
					}
					for _, v := range vals {
						add(fmt.Sprintf("<%s %s=\"%s\">t</%s>", el, a, v, el))
					}
					add(fmt.Sprintf("<%s %s=\"%s\">t</%s>", upperASCII(el), upperASCII(a), vals[0], upperASCII(el)))
				}
			}
		case "AllowStyles":
			for _, el := range elsOf(o) {
				for _, p := range o.Names {
					vals := []string{"red", "12px", "center", "123", "#fff", "blue", "left"}
					for _, v := range vals {
						add(fmt.Sprintf("<%s style=\"%s: %s\">t</%s>", el, p, v, el))
					}
					add(fmt.Sprintf("<%s style=\"%s: red; zzz: 1\">t</%s>", el, upperASCII(p), el))
				}
			}
		case "AllowURLSchemes", "AllowURLSchemeWithCustomPolicy":
			for _, s := range o.Names {
				for _, u := range []string{s + "://good.example/p/q?x=1", s + "://example.com/other", s + ":opaque", upperASCII(s) + "://good.example/p/", s + "&#58;//good.example/p/"} {
					add(`<a href="` + u + `">l</a>`)
					add(`<img src="` + u + `">`)
					add(`<blockquote cite="` + u + `">q</blockquote>`)
				}
			}
		case "SkipElementsContent", "AllowElementsContent":
			for _, n := range o.Names {
				add("a<" + n + ">inner<b>x</b></" + n + ">z")
				add("a<" + n + ">k</" + n + "><iframe>i</iframe><object>o</object>after<" + n + ">k2</" + n + "><title>t</title>end")
			}
		case "AllowDataURIImages":
			for _, u := range urlSamples {
				if strings.Contains(strings.ToLower(u), "data") {
					add(`<img src="` + u + `" alt="i">`)
				}
			}
		}
	}
	perOpCap = false
	v := VocabOf(Recipe{Base: "ugc", Ops: all}, fresh)
	for i := 0; i < 40; i++ {
		add(string(GenInput(r, v, 6)))
	}
	return out
}

// ---- building ----

func buildSeq(base string, ops []Op) *bluemonday.Policy {
	in := NewInstance(base)
	for _, o := range ops {
		in.Apply(o)
	}
	return in.P
}

// fingerprint: behaviour of a policy on the probe set.
func fingerprint(p *bluemonday.Policy, probes [][]byte) []string {
	out := make([]string, len(probes))
	for i, pr := range probes {
		var s string
		if pn := guarded(func() { s = p.Sanitize(string(pr)) }); pn != "" {
			s = "PANIC: " + pn
		}
		out[i] = s
	}
	return out
}

func firstDiff(a, b []string) int {
	for i := range a {
		if i >= len(b) || a[i] != b[i] {
			return i
		}
	}
	return -1
}

func opsString(ops []Op) string {
	var ss []string
	for _, o := range ops {
		ss = append(ss, o.String())
	}
	return strings.Join(ss, " ; ")
}

func caseMutName(r *RNG, s string) string {
	b := []byte(s)
	changed := false
	for i := range b {
		if b[i] >= 'a' && b[i] <= 'z' && r.Bool(0.5) {
			b[i] -= 32
			changed = true
		}
	}
	if !changed && len(b) > 0 && b[0] >= 'a' && b[0] <= 'z' {
		b[0] -= 32
	}
	return string(b)
}

func caseMutOps(r *RNG, ops []Op) ([]Op, int) {
	out := make([]Op, len(ops))
	n := 0
	mut := func(xs []string) []string {
		ys := make([]string, len(xs))
		for i, x := range xs {
			ys[i] = x
			if r.Bool(0.6) {
				ys[i] = caseMutName(r, x)
				if ys[i] != x {
					n++
				}
			}
		}
		return ys
	}
	for i, o := range ops {
		c := o
		switch o.K {
		case "AllowElements", "SkipElementsContent", "AllowElementsContent", "AllowURLSchemes", "AllowURLSchemeWithCustomPolicy":
			c.Names = mut(o.Names)
		case "AllowAttrs", "AllowStyles":
			c.Names = mut(o.Names)
			c.Els = mut(o.Els)
			c.Els2 = mut(o.Els2)
		case "AllowNoAttrs":
			c.Els = mut(o.Els)
		}
		out[i] = c
	}
	return out, n
}

// permuteRespecting returns a permutation of ops that keeps the relative
// order of every conflicting pair, and how many positions moved.
func permuteRespecting(r *RNG, ops []Op) ([]Op, int) {
	n := len(ops)
	placed := make([]bool, n)
	var order []int
	for len(order) < n {
		var ready []int
		for i := 0; i < n; i++ {
			if placed[i] {
				continue
			}
			ok := true
			for j := 0; j < i; j++ {
				if !placed[j] && conflict(ops[j], ops[i]) {
					ok = false
					break
				}
			}
			if ok {
				ready = append(ready, i)
			}
		}
		pick := ready[r.Intn(len(ready))]
		placed[pick] = true
		order = append(order, pick)
	}
	out := make([]Op, n)
	moved := 0
	for i, j := range order {
		out[i] = ops[j]
		if i != j {
			moved++
		}
	}
	return out, moved
}

type stepRef struct{ op, step int }

// chainInterleaving orders the steps of one instance: steps of a chain stay in
// order and at most two calls are open at once.  Single-step calls (all the
// switch-like options are single-step) execute when they are opened, hence in
// their canonical relative order; the binder of an open chain (a rule, which
// writes no switch) may land after a later single-step call - a legal
// reordering, since rules commute with everything.
func chainInterleaving(r *RNG, nsteps []int) []stepRef {
	var out []stepRef
	next := 0
	type open struct{ op, done int }
	var win []open
	for next < len(nsteps) || len(win) > 0 {
		var choices []int // index into win, or -1 = open next op
		for i, w := range win {
			last := w.done == nsteps[w.op]-1
			if !last || i == 0 {
				choices = append(choices, i)
			}
		}
		if next < len(nsteps) && len(win) < 2 {
			choices = append(choices, -1)
		}
		c := choices[r.Intn(len(choices))]
		if c == -1 {
			win = append(win, open{next, 0})
			next++
			c = len(win) - 1
		}
		w := &win[c]
		out = append(out, stepRef{w.op, w.done})
		w.done++
		if w.done == nsteps[w.op] {
			win = append(win[:c], win[c+1:]...)
		}
	}
	return out
}

func runC17(planJSON []byte) (*RunResult, error) {
	var pl C17Plan
	if err := json.Unmarshal(planJSON, &pl); err != nil {
		return nil, err
	}
	res := &RunResult{PlanDigest: digestBytes(mustJSON(pl.Instances), mustJSON(pl.Schedule))}
	dig := &bytes.Buffer{}
	if len(pl.Instances) == 0 {
		res.Digest = "empty"
		return res, nil
	}
	want := func(k string) bool { return pl.Only == "" || pl.Only == k }
	var all []Op
	for _, in := range pl.Instances {
		all = append(all, in.Ops...)
	}
	// extension ops used by the isolation check, derived from the instances' own vocabulary
	er := NewRNG(Mix(pl.RunSeed, 0xe47))
	ext := genExtension(er, all)
	probes := probesFor(NewRNG(Mix(pl.RunSeed, 0x9b0be)), append(append([]Op{}, all...), ext...), fmt.Sprint(pl.Idx))

	viol := func(only, oracle, site, detail string, obs, exp interface{}) {
		cp := pl
		cp.Only = only
		res.Violations = append(res.Violations, Violation{Property: "C17", Oracle: oracle, Site: site, Detail: detail, Plan: mustJSON(cp), Observed: obs, Expected: exp})
	}
	describe := func(i int, got, ref []string) (string, string, string) {
		d := firstDiff(got, ref)
		return fmt.Sprintf("probe %s", clip(probes[d], 120)), got[d], ref[d]
	}

	// reference: each instance built alone, in the given order, lower-case names
	refFP := make([][]string, len(pl.Instances))
	for i, in := range pl.Instances {
		refFP[i] = fingerprint(buildSeq(in.Base, in.Ops), probes)
		res.Evals += int64(len(probes))
		fmt.Fprintf(dig, "ref%d %s\n", i, digestBytes([]byte(strings.Join(refFP[i], "\x00"))))
	}

	// 1. interleaved construction of all instances, chains split into steps
	var built []*Instance
	if want("interleave") || want("isolation") {
		r := NewRNG(Mix(pl.RunSeed, 0x171))
		built = make([]*Instance, len(pl.Instances))
		type cursor struct {
			steps [][]func()
			order []stepRef
			pos   int
		}
		curs := make([]*cursor, len(pl.Instances))
		totalSteps := 0
		for i, in := range pl.Instances {
			built[i] = NewInstance(in.Base)
			c := &cursor{}
			var ns []int
			for _, o := range in.Ops {
				st := built[i].Steps(o)
				c.steps = append(c.steps, st)
				ns = append(ns, len(st))
			}
			c.order = chainInterleaving(r, ns)
			totalSteps += len(c.order)
			curs[i] = c
		}
		switches, last := 0, -1
		useBetween := Mix(pl.RunSeed, 0xbe7)%2 == 0
		uses := 0
		for step := 0; ; step++ {
			var live []int
			for i, c := range curs {
				if c.pos < len(c.order) {
					live = append(live, i)
				}
			}
			if len(live) == 0 {
				break
			}
			var pick int
			if step < len(pl.Schedule) {
				pick = live[abs(pl.Schedule[step])%len(live)]
			} else {
				pick = live[r.Intn(len(live))]
			}
			if last >= 0 && pick != last {
				switches++
			}
			last = pick
			c := curs[pick]
			sr := c.order[c.pos]
			c.pos++
			c.steps[sr.op][sr.step]()
			// a policy may be used between builder calls; that must not freeze or skew what later calls add
			if useBetween && r.Bool(0.2) {
				pr := probes[r.Intn(len(probes))]
				guarded(func() { built[pick].P.Sanitize(string(pr)) })
				uses++
			}
		}
		res.count("sanitize_between_builder_calls", int64(uses))
		res.count("builder_steps", int64(totalSteps))
		res.count("instance_switches", int64(switches))
		if want("interleave") {
			for i := range built {
				fp := fingerprint(built[i].P, probes)
				res.Evals += int64(len(probes))
				fmt.Fprintf(dig, "il%d %s\n", i, digestBytes([]byte(strings.Join(fp, "\x00"))))
				if switches >= 2 || len(pl.Instances) == 1 {
					res.Nontrivial++
				}
				res.count("check.interleave", 1)
				if firstDiff(fp, refFP[i]) >= 0 {
					where, got, exp := describe(i, fp, refFP[i])
					viol("interleave", "C17/interleaved-construction-differs", "interleave",
						fmt.Sprintf("instance %d built step by step interleaved with %d other instance(s) behaves differently from the same calls made alone: %s gives %q, alone %q. history: %s",
							i, len(pl.Instances)-1, where, got, exp, opsString(pl.Instances[i].Ops)), got, exp)
					break
				}
			}
		}
	}

	// 2. isolation: extend the other instances and fresh shipped policies; the victim must not move
	if want("isolation") && built != nil {
		victim := int(Mix(pl.RunSeed, 0x150) % uint64(len(pl.Instances)))
		for j := range built {
			if j != victim {
				for _, o := range ext {
					built[j].Apply(o)
				}
			}
		}
		for _, base := range []string{"ugc", "new", "strict"} {
			fr := NewInstance(base)
			for _, o := range ext {
				fr.Apply(o)
			}
		}
		fp := fingerprint(built[victim].P, probes)
		res.Evals += int64(len(probes))
		res.Nontrivial++
		res.count("check.isolation", 1)
		fmt.Fprintf(dig, "iso%d %s\n", victim, digestBytes([]byte(strings.Join(fp, "\x00"))))
		if firstDiff(fp, refFP[victim]) >= 0 {
			where, got, exp := describe(victim, fp, refFP[victim])
			viol("isolation", "C17/other-instance-changed-behaviour", "isolation",
				fmt.Sprintf("instance %d changed behaviour after OTHER policies (the other instances and fresh UGCPolicy/NewPolicy/StrictPolicy values) were extended with: %s. %s now gives %q, before %q",
					victim, opsString(ext), where, got, exp), got, exp)
		}
		// a policy built after those extensions must equal one built before
		in := pl.Instances[victim]
		fp2 := fingerprint(buildSeq(in.Base, in.Ops), probes)
		res.Evals += int64(len(probes))
		if firstDiff(fp2, refFP[victim]) >= 0 {
			where, got, exp := describe(victim, fp2, refFP[victim])
			viol("isolation", "C17/constructor-state-leaked", "isolation",
				fmt.Sprintf("a policy built from the same calls AFTER other policies were extended (%s) differs from the one built before: %s gives %q, before %q",
					opsString(ext), where, got, exp), got, exp)
		}
	}

	for i, in := range pl.Instances {
		// 3. order
		if want("order") {
			r := NewRNG(Mix(pl.RunSeed, 0x0de, uint64(i)))
			for rep := 0; rep < 2; rep++ {
				perm, moved := permuteRespecting(r, in.Ops)
				fp := fingerprint(buildSeq(in.Base, perm), probes)
				res.Evals += int64(len(probes))
				res.count("check.order", 1)
				if moved >= 2 {
					res.Nontrivial++
				}
				fmt.Fprintf(dig, "ord%d.%d %s\n", i, rep, digestBytes([]byte(strings.Join(fp, "\x00"))))
				if firstDiff(fp, refFP[i]) >= 0 {
					where, got, exp := describe(i, fp, refFP[i])
					viol("order", "C17/order-dependent", "order",
						fmt.Sprintf("instance %d: a permutation of the builder calls that keeps the order of conflicting switch settings behaves differently: %s gives %q, canonical order %q. permuted: %s || canonical: %s",
							i, where, got, exp, opsString(perm), opsString(in.Ops)), got, exp)
					break
				}
			}
		}
		// 4. case
		if want("case") {
			r := NewRNG(Mix(pl.RunSeed, 0xca5e, uint64(i)))
			mut, n := caseMutOps(r, in.Ops)
			fp := fingerprint(buildSeq(in.Base, mut), probes)
			res.Evals += int64(len(probes))
			res.count("check.case", 1)
			if n >= 2 {
				res.Nontrivial++
			}
			fmt.Fprintf(dig, "case%d %s\n", i, digestBytes([]byte(strings.Join(fp, "\x00"))))
			if firstDiff(fp, refFP[i]) >= 0 {
				where, got, exp := describe(i, fp, refFP[i])
				viol("case", "C17/case-dependent", "case",
					fmt.Sprintf("instance %d: the same calls with element/attribute/property/scheme names in mixed case behave differently: %s gives %q, lower-case %q. mixed-case history: %s",
						i, where, got, exp, opsString(mut)), got, exp)
			}
		}
		// 5. a builder value used for two scope calls stands for two independent chains
		if want("reuse") {
			var split []Op
			n := 0
			for _, o := range in.Ops {
				if two := o.SplitReuse(); two != nil {
					split = append(split, two...)
					n++
				} else {
					split = append(split, o)
				}
			}
			if n > 0 {
				fp := fingerprint(buildSeq(in.Base, split), probes)
				res.Evals += int64(len(probes))
				res.count("check.reuse", 1)
				res.count("builders_reused", int64(n))
				res.Nontrivial++
				fmt.Fprintf(dig, "reuse%d %s\n", i, digestBytes([]byte(strings.Join(fp, "\x00"))))
				if firstDiff(fp, refFP[i]) >= 0 {
					where, got, exp := describe(i, fp, refFP[i])
					viol("reuse", "C17/builder-reuse-differs", "reuse",
						fmt.Sprintf("instance %d: using one builder value for two scope calls (with its matcher changed in between) behaves differently from making the two chains with fresh builders: %s gives %q with fresh builders, %q with the reused one. history: %s",
							i, where, got, exp, opsString(in.Ops)), got, exp)
				}
			}
		}
		// 6. one call naming several attributes/properties/elements = the calls for each single name
		if want("split") {
			var split []Op
			n := 0
			for _, o := range in.Ops {
				base := []Op{o}
				if two := o.SplitReuse(); two != nil {
					base = two
				}
				for _, b := range base {
					if singles := b.SplitNames(); singles != nil {
						split = append(split, singles...)
						n++
					} else {
						split = append(split, b)
					}
				}
			}
			if n > 0 {
				fp := fingerprint(buildSeq(in.Base, split), probes)
				res.Evals += int64(len(probes))
				res.count("check.split", 1)
				res.count("calls_split", int64(n))
				res.Nontrivial++
				fmt.Fprintf(dig, "split%d %s\n", i, digestBytes([]byte(strings.Join(fp, "\x00"))))
				if firstDiff(fp, refFP[i]) >= 0 {
					where, got, exp := describe(i, fp, refFP[i])
					viol("split", "C17/grouping-dependent", "split",
						fmt.Sprintf("instance %d: making one call per attribute/property/element instead of one call naming several behaves differently: %s gives %q with single-name calls, %q with the grouped ones. history: %s",
							i, where, got, exp, opsString(in.Ops)), got, exp)
				}
			}
		}
		// 7. most recent setting
		if want("recent") {
			red, dropped := reduceHistory(in.Base, in.Ops)
			if dropped > 0 {
				fp := fingerprint(buildSeq(in.Base, red), probes)
				res.Evals += int64(len(probes))
				res.count("check.recent", 1)
				res.count("recent_calls_dropped", int64(dropped))
				res.Nontrivial++
				fmt.Fprintf(dig, "rec%d %s\n", i, digestBytes([]byte(strings.Join(fp, "\x00"))))
				if firstDiff(fp, refFP[i]) >= 0 {
					where, got, exp := describe(i, fp, refFP[i])
					viol("recent", "C17/not-most-recent-setting", "recent",
						fmt.Sprintf("instance %d: dropping %d switch setting(s) that are overwritten later (or set a blank policy's default) changes behaviour: %s gives %q with the reduced history, %q with the full one. reduced: %s || full: %s",
							i, dropped, where, got, exp, opsString(red), opsString(in.Ops)), got, exp)
				}
			}
		}
	}
	res.count("plans", 1)
	res.count("instances", int64(len(pl.Instances)))
	res.count("probes", int64(len(probes)))
	res.Digest = digestBytes(dig.Bytes())
	return res, nil
}

func abs(x int) int {
	if x < 0 {
		return -x
	}
	return x
}

// genExtension: calls made on OTHER policies that would show up in the victim
// if any table, default set or constructor result were shared.
func genExtension(r *RNG, all []Op) []Op {
	elSet := map[string]bool{}
	atSet := map[string]bool{}
	for _, o := range all {
		for _, e := range o.Els {
			elSet[e] = true
		}
		if o.K == "AllowElements" {
			for _, e := range o.Names {
				elSet[e] = true
			}
		}
		if o.K == "AllowAttrs" {
			for _, a := range o.Names {
				atSet[a] = true
			}
		}
	}
	var els, ats []string
	for e := range elSet {
		els = append(els, e)
	}
	for a := range atSet {
		ats = append(ats, a)
	}
	sort.Strings(els)
	sort.Strings(ats)
	els = append(els, "bdo", "p", "a", "span", "my-el", "font", "zzz")
	ats = append(ats, "title", "onclick", "style", "href", "class")
	ext := []Op{
		{K: "AllowNoAttrs", Scope: "els", Els: subset(r, els, 2, 6)},
		{K: "AllowElements", Names: append(subset(r, els, 1, 4), "script", "style", "zzz")},
		{K: "AllowAttrs", Names: subset(r, ats, 2, 5), Scope: "glob"},
		{K: "AllowAttrs", Names: subset(r, ats, 1, 3), Scope: "els", Els: subset(r, els, 1, 4)},
		{K: "AllowAttrs", Names: subset(r, ats, 1, 2), Scope: "elsre", ElRe: r.Pick(elPatterns)},
		{K: "AllowStyles", Names: []string{"color", "text-align", "x-prop", "width"}, Fn: "true", Scope: "glob"},
		{K: "AllowStyles", Names: []string{"color", "width"}, Fn: "true", Scope: "els", Els: subset(r, els, 1, 3)},
		{K: "SkipElementsContent", Names: subset(r, els, 1, 3)},
		{K: "AllowElementsContent", Names: []string{"script", "style", "title", "iframe", "noscript", "object"}},
		{K: "AllowURLSchemes", Names: []string{"javascript", "data", "app", "ftp", "tel"}},
		{K: "AllowURLSchemeWithCustomPolicy", Names: []string{"http"}, Fn: "false"},
		{K: "AllowURLSchemesMatching", Re: `^[a-z]+$`},
		{K: "AllowRelativeURLs", B: r.Bool(0.5)},
		{K: "RequireNoFollowOnLinks", B: r.Bool(0.5)},
		{K: "RequireNoReferrerOnLinks", B: true},
		{K: "AddTargetBlankToFullyQualifiedLinks", B: true},
		{K: "RequireCrossOriginAnonymous", B: true},
		{K: "AddSpaceWhenStrippingTag", B: true},
		{K: "AllowComments"},
		{K: "AllowDataAttributes"},
		{K: "AllowUnsafe", B: true},
		{K: "RequireSandboxOnIFrame", Ints: []int{2}},
		{K: "RewriteSrc", Fn: "proxy"},
		{K: "RequireParseableURLs", B: false},
	}
	return ext
}

func shrinkC17(planJSON []byte, v Violation, fails func([]byte) *Violation, budget int) []byte {
	var cur C17Plan
	json.Unmarshal(planJSON, &cur)
	best := planJSON
	try := func(c C17Plan) bool {
		if budget <= 0 {
			return false
		}
		budget--
		if got := fails(mustJSON(c)); got != nil {
			best = got.Plan
			return true
		}
		return false
	}
	clone := func() C17Plan {
		var c C17Plan
		json.Unmarshal(mustJSON(cur), &c)
		return c
	}
	for i := len(cur.Instances) - 1; i >= 0 && len(cur.Instances) > 1; i-- {
		c := clone()
		c.Instances = append(c.Instances[:i], c.Instances[i+1:]...)
		if try(c) {
			cur = c
		}
	}
	for changed := true; changed && budget > 0; {
		changed = false
		for i := range cur.Instances {
			for j := len(cur.Instances[i].Ops) - 1; j >= 0 && budget > 0; j-- {
				if j >= len(cur.Instances[i].Ops) {
					continue
				}
				c := clone()
				c.Instances[i].Ops = append(c.Instances[i].Ops[:j], c.Instances[i].Ops[j+1:]...)
				if try(c) {
					cur = c
					changed = true
				}
			}
		}
	}
	for i := range cur.Instances {
		if cur.Instances[i].Base != "new" && cur.Instances[i].Base != "zero" {
			c := clone()
			c.Instances[i].Base = "new"
			if try(c) {
				cur = c
			}
		}
	}
	return best
}

func init() {
	engines["C17"] = &Engine{ID: "C17", Gen: genC17, Run: runC17, Shrink: shrinkC17, CasesQuick: 600, InProcessShrink: true}
}
