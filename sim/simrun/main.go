// simrun is the deterministic simulator for bluemonday's stream, scheduling
// and builder surfaces.  It is always built against an instrumented scratch
// copy of /repo's working tree (see /verif/bin/check).
package main

import (
	"encoding/json"
	"flag"
	"fmt"
	"os"
	"strconv"
	"strings"
	"time"
)

func parseSeeds(s string) []uint64 {
	var out []uint64
	for _, f := range strings.Split(s, ",") {
		if f == "" {
			continue
		}
		v, err := strconv.ParseUint(f, 10, 64)
		if err != nil {
			fmt.Fprintln(os.Stderr, "bad seed", f)
			os.Exit(2)
		}
		out = append(out, v)
	}
	return out
}

func main() {
	if len(os.Args) < 2 {
		fmt.Fprintln(os.Stderr, "usage: simrun drive|worker|replay|exec-plan|digest|gen ...")
		os.Exit(2)
	}
	cmd := os.Args[1]
	fs := flag.NewFlagSet(cmd, flag.ExitOnError)
	prop := fs.String("prop", "", "property id")
	tier := fs.String("tier", "quick", "quick|thorough")
	seed := fs.Uint64("seed", 1, "VERIF_SEED")
	seeds := fs.String("seeds", "", "comma-separated stream seeds (worker)")
	workers := fs.Int("workers", 12, "worker processes")
	budget := fs.Duration("budget", 10*time.Minute, "thorough exploration budget")
	evidence := fs.String("evidence", "", "evidence file")
	known := fs.String("known", "", "known findings file")
	replays := fs.String("replays", "", "replay directory")
	workdir := fs.String("workdir", "", "scratch directory")
	instr := fs.String("instr-report", "", "instrumentation report")
	shard := fs.Int("shard", 0, "")
	nshards := fs.Int("nshards", 1, "")
	count := fs.Int("count", 0, "")
	perSeed := fs.Duration("per-seed", 0, "")
	out := fs.String("out", "", "")
	journal := fs.String("journal", "", "")
	plan := fs.String("plan", "", "plan file")
	n := fs.Int("n", 30, "")
	idx := fs.Int("idx", 0, "")
	from := fs.Int("from", 0, "")
	isoEvery := fs.Int("iso-every", 0, "")
	cliDir := fs.String("cli-dir", "", "directory with the CLI binaries built from the tree (C15)")
	fs.Parse(os.Args[2:])
	if *cliDir != "" {
		os.Setenv("VERIF_CLI_DIR", *cliDir)
	}

	switch cmd {
	case "drive":
		os.Exit(drive(driveCfg{prop: *prop, tier: *tier, seed: *seed, workers: *workers, budget: *budget, evidence: *evidence,
			known: *known, replays: *replays, workdir: *workdir, instrRep: *instr}))
	case "worker":
		os.Exit(runWorker(workerCfg{prop: *prop, tier: *tier, seeds: parseSeeds(*seeds), shard: *shard, nshards: *nshards,
			count: *count, perSeed: *perSeed, out: *out, journal: *journal, maxViols: 12, isoEvery: *isoEvery}))
	case "digest":
		os.Exit(runDigest(*prop, *tier, *seed, *from, *n))
	case "gen":
		eng := engines[*prop]
		b, _ := json.MarshalIndent(eng.Gen(*seed, *idx, *tier), "", " ")
		fmt.Println(string(b))
	case "exec-plan":
		b, err := os.ReadFile(*plan)
		if err != nil {
			fmt.Fprintln(os.Stderr, err)
			os.Exit(2)
		}
		rr, err := runMaybeSeq(engines[*prop], b)
		if err != nil {
			fmt.Fprintln(os.Stderr, err)
			os.Exit(2)
		}
		// the result goes to a file when asked: a library under test that prints diagnostics
		// to stdout must not be able to corrupt it
		if *out != "" {
			if err := os.WriteFile(*out, mustJSON(rr), 0o644); err != nil {
				fmt.Fprintln(os.Stderr, err)
				os.Exit(2)
			}
		} else {
			os.Stdout.Write(mustJSON(rr))
		}
	case "replay":
		os.Exit(replay(*plan))
	default:
		fmt.Fprintln(os.Stderr, "unknown command", cmd)
		os.Exit(2)
	}
}

// runMaybeSeq executes a plan, or {"sequence":[plan...]}: all of them in this process, result of the last.
func runMaybeSeq(eng *Engine, b []byte) (*RunResult, error) {
	var seq struct {
		Sequence []json.RawMessage `json:"sequence"`
	}
	if json.Unmarshal(b, &seq) == nil && len(seq.Sequence) > 0 {
		var rr *RunResult
		var err error
		for _, p := range seq.Sequence {
			if rr, err = eng.Run(p); err != nil {
				return nil, err
			}
		}
		return rr, nil
	}
	return eng.Run(b)
}

// replay re-executes a replay file written by drive and reports whether the
// recorded violation reproduces.
func replay(path string) int {
	b, err := os.ReadFile(path)
	if err != nil {
		fmt.Fprintln(os.Stderr, err)
		return 2
	}
	var rf struct {
		Property string            `json:"property"`
		Oracle   string            `json:"oracle"`
		Site     string            `json:"site"`
		Plan     json.RawMessage   `json:"plan"`
		Prefix   []json.RawMessage `json:"prefix"`
	}
	if err := json.Unmarshal(b, &rf); err != nil {
		fmt.Fprintln(os.Stderr, err)
		return 2
	}
	eng := engines[rf.Property]
	if eng == nil {
		fmt.Fprintln(os.Stderr, "replay file names unknown property", rf.Property)
		return 2
	}
	for i, pp := range rf.Prefix {
		if _, err := eng.Run(pp); err != nil {
			fmt.Fprintf(os.Stderr, "prefix plan %d: %v\n", i, err)
			return 2
		}
	}
	rr, err := eng.Run(rf.Plan)
	if err != nil {
		fmt.Fprintln(os.Stderr, err)
		return 2
	}
	fmt.Printf("# replay %s: recorded %s site=%s; run digest %s (after %d prefix plans)\n", path, rf.Oracle, rf.Site, rr.Digest, len(rf.Prefix))
	if rf.Oracle == historyOracle[rf.Property] && rf.Oracle != "" {
		wd, _ := os.MkdirTemp("", "verif-replay-")
		defer os.RemoveAll(wd)
		alone, err := execPlanFresh(wd, rf.Plan, rf.Property)
		if err != nil {
			fmt.Fprintln(os.Stderr, err)
			return 2
		}
		if alone.Digest == rr.Digest {
			fmt.Println("# no violation on this tree: same result alone and after the prefix")
			return 0
		}
		fmt.Printf("VIOLATION property=%s replay=%s\n  oracle=%s site=history\n  result digest %s after the prefix, %s alone in a fresh process\n", rf.Property, path, rf.Oracle, rr.Digest, alone.Digest)
		return 1
	}
	if len(rr.Violations) == 0 && rf.Oracle == "C13/data-race" {
		// same schedule, same results; only the race runtime's view of sync.Pool edges varies
		wd, _ := os.MkdirTemp("", "verif-replay-")
		defer os.RemoveAll(wd)
		for i := 0; i < 4 && len(rr.Violations) == 0; i++ {
			if r2, err := execPlanFresh(wd, rf.Plan, rf.Property); err == nil && r2.Digest == rr.Digest {
				rr.Violations = r2.Violations
				fmt.Printf("# race report reproduced on extra attempt %d (identical run digest)\n", i+1)
			}
		}
	}
	if len(rr.Violations) == 0 {
		fmt.Println("# no violation on this tree")
		return 0
	}
	for _, v := range rr.Violations {
		fmt.Printf("VIOLATION property=%s replay=%s\n  oracle=%s site=%s\n  %s\n", v.Property, path, v.Oracle, v.Site, v.Detail)
	}
	return 1
}
