package main

import (
	"bytes"
	"encoding/json"
	"fmt"
	"os"
	"strings"
)

// C16 — I/O failures are reported and the output stays a clean prefix.
//
// One plan is one case (policy recipe, input, chunk schedule); running it
// enumerates every write index × writer-fault kind × writer kind, every source
// offset × {with,without data} and a sample of combined faults.  When Only is
// set the plan is a replay of exactly one faulted execution.

type C16Fault struct {
	Writer    string  `json:"writer"` // sw | plain
	W         *WFault `json:"w,omitempty"`
	R         *RFault `json:"r,omitempty"`
	ViaReader bool    `json:"via_sanitize_reader,omitempty"` // entry point SanitizeReader instead of ...ToWriter
	Combined  bool    `json:"combined,omitempty"`
}

type C16Plan struct {
	Property string    `json:"property"`
	RunSeed  uint64    `json:"run_seed"`
	Idx      int       `json:"idx"`
	Recipe   Recipe    `json:"recipe"`
	Input    []byte    `json:"input"` // base64 in JSON
	Read     ReadPlan  `json:"read"`
	Only     *C16Fault `json:"only,omitempty"`
	// Like restricts the enumeration to faults of the same kind as this one (used while
	// minimising: indices shift when the input shrinks, the kind of fault does not).
	Like *C16Fault `json:"like,omitempty"`
}

func genC16(seed uint64, idx int, tier string) interface{} {
	rs := Mix(seed, strTag("C16"), uint64(idx))
	r := NewRNG(rs)
	fresh := fmt.Sprintf("%d", idx)
	opt := GenOpts{Fresh: fresh, WantComments: 0.5, WantSpaces: 0.4, WantUnsafe: 0.25, WantCallback: 0.3, WantPatterns: r.Bool(0.3), ZeroBase: 0.04}
	rc := GenRecipe(r.Fork(1), opt)
	v := VocabOf(rc, fresh)
	var in []byte
	ir := r.Fork(2)
	switch {
	case r.Bool(0.03):
		in = GenLongInput(ir, v)
	case r.Bool(0.015): // one token beyond 32 KiB / 64 KiB: size-gated write paths
		in = GenGiantTokenSized(ir, v, []int{33000, 40000, 66000, 80000}[r.Intn(4)]+r.Intn(3000))
	case r.Bool(0.2):
		in = GenTargetedInput(ir, rc, fresh, r.Range(2, 6))
	case tier == "thorough" && r.Bool(0.3):
		in = GenInput(ir, v, 16)
	default:
		in = GenInput(ir, v, 6)
	}
	rp := genChunks(r.Fork(3), len(in))
	if len(in) > 16384 && len(rp.Chunks) > 64 {
		// every fault position re-runs the whole schedule: keep it coarse for big inputs
		rp.Chunks = []int{r.Range(1, 5000), r.Range(1, 40000)}
	}
	rp.Fault = nil
	return &C16Plan{Property: "C16", RunSeed: rs, Idx: idx, Recipe: rc, Input: in, Read: rp}
}

type c16Exec struct {
	Err      string `json:"err"` // "" = nil
	Calls    int    `json:"calls"`
	Accepted []byte `json:"accepted"`
	core     *writerCore
	rd       *SimReader
	panicked string
}

func runRTW(rc Recipe, in []byte, rp ReadPlan, writer string, wf *WFault) (ex c16Exec) {
	p := BuildPolicy(rc)
	rd := NewSimReader(in, rp)
	w, core := newWriter(writer, wf)
	ex.core, ex.rd = core, rd
	func() {
		defer func() {
			if x := recover(); x != nil {
				ex.panicked = fmt.Sprint(x)
			}
		}()
		if err := p.SanitizeReaderToWriter(rd, w); err != nil {
			ex.Err = err.Error()
			if ex.Err == "" {
				ex.Err = "(empty error text)"
			}
		}
	}()
	ex.Calls = core.Calls
	ex.Accepted = core.Accepted
	return
}

func writeSiteClass(payload []byte) string {
	s := string(payload)
	switch {
	case strings.HasPrefix(s, "<!--"):
		return "comment"
	case s == " ":
		return "space"
	case strings.HasPrefix(s, "</"):
		return "end-tag"
	case strings.HasPrefix(s, "<") && strings.HasSuffix(s, "/>"):
		return "self-closing-tag"
	case strings.HasPrefix(s, "<") && strings.HasSuffix(s, ">"):
		return "start-tag"
	case strings.ContainsAny(s, "<>"):
		return "raw-text"
	default:
		return "text"
	}
}

func readPosClass(in []byte, j int) string {
	if j >= len(in) {
		return "at-eof"
	}
	for k := 4096; k <= len(in)+1; k *= 2 {
		if j >= k-2 && j <= k+2 {
			return "buffer-boundary"
		}
	}
	pre := in[:j]
	lc := bytes.LastIndex(pre, []byte("<!--"))
	if lc >= 0 && !bytes.Contains(pre[lc:], []byte("-->")) {
		return "in-comment"
	}
	lt, gt := bytes.LastIndexByte(pre, '<'), bytes.LastIndexByte(pre, '>')
	if lt > gt {
		return "in-tag"
	}
	amp := bytes.LastIndexByte(pre, '&')
	if amp >= 0 && j-amp < 10 && !bytes.ContainsAny(pre[amp:], "; <") {
		return "in-entity"
	}
	return "in-text"
}

// failingFile returns an *os.File on which every write fails, and its cleanup.
func failingFile(kind string) (*os.File, func()) {
	switch kind {
	case "devfull":
		f, err := os.OpenFile("/dev/full", os.O_WRONLY, 0)
		if err != nil {
			return nil, nil
		}
		return f, func() { f.Close() }
	case "readonly":
		f, err := os.Open("/dev/null") // opened for reading only: write(2) gives EBADF
		if err != nil {
			return nil, nil
		}
		return f, func() { f.Close() }
	case "brokenpipe":
		r, w, err := os.Pipe()
		if err != nil {
			return nil, nil
		}
		r.Close()
		return w, func() { w.Close() }
	}
	return nil, nil
}

func sampleIdx(r *RNG, n, max int) []int {
	if n <= max {
		out := make([]int, n)
		for i := range out {
			out[i] = i
		}
		return out
	}
	set := map[int]bool{0: true, 1: true, n - 1: true, n - 2: true}
	for len(set) < max {
		set[r.Intn(n)] = true
	}
	out := make([]int, 0, len(set))
	for i := 0; i < n; i++ {
		if set[i] {
			out = append(out, i)
		}
	}
	return out
}

func runC16(planJSON []byte) (*RunResult, error) {
	var pl C16Plan
	if err := json.Unmarshal(planJSON, &pl); err != nil {
		return nil, err
	}
	res := &RunResult{PlanDigest: digestBytes(mustJSON(pl.Recipe), pl.Input, mustJSON(pl.Read))}
	dig := &bytes.Buffer{}
	r := NewRNG(Mix(pl.RunSeed, 0xC16))

	viol := func(f C16Fault, oracle, site, detail string, obs, exp interface{}) {
		cp := pl
		cp.Only = &f
		cp.Like = nil
		res.Violations = append(res.Violations, Violation{Property: "C16", Oracle: oracle, Site: site, Detail: detail,
			Plan: mustJSON(cp), Observed: obs, Expected: exp})
	}

	base := pl.Read
	base.Fault = nil

	// fault-free reference per writer kind (separate pass: nothing is relaxed here)
	ff := map[string]c16Exec{}
	for _, wk := range []string{"sw", "plain"} {
		ex := runRTW(pl.Recipe, pl.Input, base, wk, nil)
		res.Evals++
		ff[wk] = ex
		fmt.Fprintf(dig, "ff %s err=%q calls=%d out=%s\n", wk, ex.Err, ex.Calls, digestBytes(ex.Accepted))
	}
	if ff["sw"].panicked != "" || ff["sw"].Err != "" {
		res.Notes = append(res.Notes, "fault-free run did not complete normally (not a C16 matter): "+ff["sw"].panicked+ff["sw"].Err)
		res.count("skipped_faultfree_abnormal", 1)
		res.Digest = digestBytes(dig.Bytes())
		return res, nil
	}
	if !bytes.Equal(ff["sw"].Accepted, ff["plain"].Accepted) {
		res.Notes = append(res.Notes, "writer kinds disagree fault-free (C15 matter)")
	}

	checkWriterFault := func(f C16Fault, refOut []byte) {
		rp := base
		rp.Fault = f.R
		ex := runRTW(pl.Recipe, pl.Input, rp, f.Writer, f.W)
		res.Evals++
		fmt.Fprintf(dig, "wf %s %v r=%v err=%q calls=%d acc=%s\n", f.Writer, *f.W, f.R != nil, ex.Err, ex.Calls, digestBytes(ex.Accepted))
		if ex.core.FailedAt < 0 {
			res.count("writer_fault_not_reached", 1)
			return
		}
		res.Nontrivial++
		site := writeSiteClass(ex.core.FailedPayload)
		res.count("wfault_fired."+f.W.Kind, 1)
		res.count("wfault_dest."+f.Writer, 1)
		if f.W.Err != "" {
			res.count("wfault_errvalue."+f.W.Err, 1)
		}
		res.count("wfault_site."+site, 1)
		if f.Combined {
			res.count("combined_fired", 1)
		}
		if ex.panicked != "" {
			viol(f, "C16/panic-on-write-failure", site, "panic: "+ex.panicked, nil, nil)
			return
		}
		var bad []string
		oracle := ""
		if ex.Err == "" {
			bad = append(bad, "returned nil error although write #"+fmt.Sprint(ex.core.FailedAt)+" failed")
			oracle = "C16/write-error-swallowed"
		}
		if ex.core.CallsAfterFail > 0 {
			bad = append(bad, fmt.Sprintf("%d further write call(s) after the failed write", ex.core.CallsAfterFail))
			if oracle == "" {
				oracle = "C16/write-after-failure"
			}
		}
		if !isPrefix(refOut, ex.Accepted) {
			bad = append(bad, "bytes accepted by the destination are not a prefix of the fault-free output")
			if oracle == "" {
				oracle = "C16/not-a-prefix"
			}
		}
		if oracle != "" {
			viol(f, oracle, site, strings.Join(bad, "; ")+fmt.Sprintf(" [failed payload %s]", clip(ex.core.FailedPayload, 40)),
				map[string]interface{}{"err": ex.Err, "calls": ex.Calls, "accepted": string(ex.Accepted)},
				map[string]interface{}{"err": "non-nil", "calls_after_failure": 0, "prefix_of": string(refOut)})
		}
	}

	checkReaderFault := func(f C16Fault) (c16Exec, bool) {
		rp := base
		rp.Fault = f.R
		var ex c16Exec
		if f.ViaReader {
			p := BuildPolicy(pl.Recipe)
			rd := NewSimReader(pl.Input, rp)
			var buf *bytes.Buffer
			func() {
				defer func() {
					if x := recover(); x != nil {
						ex.panicked = fmt.Sprint(x)
					}
				}()
				buf = p.SanitizeReader(rd)
			}()
			res.Evals++
			fmt.Fprintf(dig, "rf-sr %v fired=%v nil=%v\n", *f.R, rd.FaultFired, buf == nil)
			if !rd.FaultFired {
				res.count("reader_fault_not_reached", 1)
				return ex, false
			}
			res.Nontrivial++
			res.count("rfault_fired."+f.R.Kind, 1)
			site := readPosClass(pl.Input, f.R.At)
			res.count("rfault_pos."+site, 1)
			switch {
			case ex.panicked != "":
				viol(f, "C16/panic-on-read-failure", site, "SanitizeReader panicked: "+ex.panicked, nil, nil)
			case buf == nil:
				viol(f, "C16/reader-nil-buffer", site, "SanitizeReader returned a nil buffer after a source failure", nil, "non-nil empty buffer")
			case buf.Len() != 0:
				viol(f, "C16/reader-nonempty-buffer", site, "SanitizeReader returned "+clip(buf.Bytes(), 60)+" after a source failure",
					buf.String(), "")
			default:
				// the buffer now belongs to the caller, who may well write into it
				buf.WriteString("<!-- written by the caller into its own buffer -->")
			}
			return ex, true
		}
		ex = runRTW(pl.Recipe, pl.Input, rp, f.Writer, nil)
		res.Evals++
		fmt.Fprintf(dig, "rf %s %v err=%q calls=%d acc=%s\n", f.Writer, *f.R, ex.Err, ex.Calls, digestBytes(ex.Accepted))
		if !ex.rd.FaultFired {
			res.count("reader_fault_not_reached", 1)
			return ex, false
		}
		res.Nontrivial++
		res.count("rfault_fired."+f.R.Kind, 1)
		res.count("rfault_dest."+f.Writer, 1)
		if f.R.WithData {
			res.count("rfault_with_data", 1)
		}
		site := readPosClass(pl.Input, f.R.At)
		res.count("rfault_pos."+site, 1)
		switch {
		case ex.panicked != "":
			viol(f, "C16/panic-on-read-failure", site, "panic: "+ex.panicked, nil, nil)
		case ex.Err == "":
			viol(f, "C16/read-error-swallowed", site, fmt.Sprintf("source failed (%s) at offset %d but SanitizeReaderToWriter returned nil", f.R.Kind, f.R.At),
				map[string]interface{}{"err": nil, "written": string(ex.Accepted)}, "non-nil error")
		}
		return ex, true
	}

	if pl.Only != nil && strings.HasPrefix(pl.Only.Writer, "osfile:") {
		kind := strings.TrimPrefix(pl.Only.Writer, "osfile:")
		if w, cleanup := failingFile(kind); w != nil {
			p := BuildPolicy(pl.Recipe)
			var err error
			pan := guarded(func() { err = p.SanitizeReaderToWriter(NewSimReader(pl.Input, base), w) })
			cleanup()
			res.Evals++
			if pan == "" && err == nil && len(ff["sw"].Accepted) > 0 {
				res.Violations = append(res.Violations, Violation{Property: "C16", Oracle: "C16/write-error-swallowed", Site: "osfile-" + kind,
					Detail: "SanitizeReaderToWriter returned nil although every write to the *os.File destination fails (" + kind + ")", Plan: planJSON})
			}
		}
		res.Digest = digestBytes(dig.Bytes())
		return res, nil
	}
	if pl.Only != nil {
		f := *pl.Only
		switch {
		case f.W != nil && f.R == nil:
			checkWriterFault(f, ff[f.Writer].Accepted)
		case f.W == nil && f.R != nil:
			checkReaderFault(f)
		default:
			rf := f
			rf.W = nil
			rf.ViaReader = false
			rp := base
			rp.Fault = f.R
			refEx := runRTW(pl.Recipe, pl.Input, rp, f.Writer, nil)
			res.Evals++
			checkWriterFault(f, refEx.Accepted)
		}
		res.Digest = digestBytes(dig.Bytes())
		return res, nil
	}

	likeW := func(wk string, kind string) bool {
		if pl.Like == nil {
			return true
		}
		return pl.Like.W != nil && pl.Like.R == nil && pl.Like.Writer == wk && pl.Like.W.Kind == kind
	}
	likeR := pl.Like == nil || (pl.Like.R != nil && pl.Like.W == nil)
	likeC := pl.Like == nil || (pl.Like.R != nil && pl.Like.W != nil)

	// ---- destinations of dynamic type *os.File that the kernel fails: /dev/full (ENOSPC), a file
	// opened read-only (EBADF), a pipe whose read end is closed (EPIPE).  Only "non-nil error" can
	// be observed here.
	if pl.Like == nil && len(ff["sw"].Accepted) > 0 {
		for _, kind := range []string{"devfull", "readonly", "brokenpipe"} {
			w, cleanup := failingFile(kind)
			if w == nil {
				res.count("osfile_dest_unavailable."+kind, 1)
				continue
			}
			p := BuildPolicy(pl.Recipe)
			var err error
			pan := guarded(func() { err = p.SanitizeReaderToWriter(NewSimReader(pl.Input, base), w) })
			cleanup()
			res.Evals++
			res.Nontrivial++
			res.count("osfile_dest."+kind, 1)
			fmt.Fprintf(dig, "osfile %s err=%v pan=%q\n", kind, err != nil, pan)
			if pan == "" && err == nil {
				cp := pl
				cp.Only, cp.Like = &C16Fault{Writer: "osfile:" + kind}, nil
				res.Violations = append(res.Violations, Violation{Property: "C16", Oracle: "C16/write-error-swallowed", Site: "osfile-" + kind,
					Detail: "SanitizeReaderToWriter returned nil although every write to the *os.File destination fails (" + kind + ")", Plan: mustJSON(cp)})
			}
		}
	}

	// ---- writer faults: every index (all when w<=64) x every kind x both writer kinds ----
	ff["rich"], ff["plainflush"] = ff["sw"], ff["plain"] // same write sequences, other optional methods
	for _, wk := range []string{"sw", "plain", "rich", "plainflush"} {
		ref := ff[wk]
		w := ref.Calls
		if (wk == "rich" || wk == "plainflush") && w > 12 {
			continue // the flushable kinds get the full enumeration on small cases only
		}
		for _, k := range sampleIdx(r, w, 64) {
			l := ref.core.Lens[k]
			kinds := []WFault{{K: k, Kind: "perm"}, {K: k, Kind: "once"}, {K: k, Kind: "full"}}
			if l >= 1 {
				kinds = append(kinds, WFault{K: k, Kind: "short", N: 0})
			}
			if l >= 2 {
				kinds = append(kinds, WFault{K: k, Kind: "short", N: r.Range(1, l-1)})
			}
			for i := range kinds {
				wf := kinds[i]
				wf.Err = writeErrKinds[r.Intn(len(writeErrKinds))]
				if likeW(wk, wf.Kind) {
					checkWriterFault(C16Fault{Writer: wk, W: &wf}, ref.Accepted)
				}
			}
		}
	}

	// ---- reader faults: every offset (all when len<=256) x with/without data ----
	n := len(pl.Input)
	offs := sampleIdx(r, n+1, 257)
	if n > 4096 {
		for k := 4096; k <= n; k *= 2 {
			offs = append(offs, k-1, k, k+1)
		}
	}
	type rfRef struct {
		j   int
		ex  c16Exec
		wd  bool
		knd string
	}
	var fired []rfRef
	for _, j := range offs {
		if j > n || !(likeR || likeC) {
			continue
		}
		for _, wd := range []bool{false, true} {
			kind := readErrKinds[r.Intn(len(readErrKinds))]
			rf := RFault{At: j, Kind: kind, WithData: wd}
			wk := []string{"sw", "sw", "plain", "rich", "plainflush"}[r.Intn(5)]
			ex, ok := checkReaderFault(C16Fault{Writer: wk, R: &rf})
			if ok && wk == "sw" && r.Bool(0.15) {
				fired = append(fired, rfRef{j, ex, wd, kind})
			}
			rf2 := rf
			checkReaderFault(C16Fault{Writer: "sw", R: &rf2, ViaReader: true})
		}
	}

	// ---- combined: source fails at j while destination fails at k ----
	for _, fr := range fired {
		if fr.ex.Calls == 0 || !likeC {
			continue
		}
		for i := 0; i < 2; i++ {
			k := r.Intn(fr.ex.Calls)
			kind := r.Pick([]string{"perm", "once", "short", "full"})
			wf := WFault{K: k, Kind: kind}
			rf := RFault{At: fr.j, Kind: fr.knd, WithData: fr.wd}
			checkWriterFault(C16Fault{Writer: "sw", W: &wf, R: &rf, Combined: true}, fr.ex.Accepted)
		}
	}

	res.count("cases", 1)
	res.count("write_calls_fault_free", int64(ff["sw"].Calls))
	if ff["plain"].core.ViaString == 0 && ff["sw"].core.ViaString > 0 {
		res.count("adapter_path_cases", 1)
	}
	if len(pl.Input) > 4096 {
		res.count("long_inputs", 1)
	}
	if len(pl.Input) > 32768 {
		res.count("inputs_with_token_over_32KiB", 1)
	}
	res.Digest = digestBytes(dig.Bytes())
	return res, nil
}

// shrinkC16 minimises the case; the specific fault is re-discovered on every
// candidate (indices shift when the input shrinks), keeping the violation class.
func shrinkC16(planJSON []byte, v Violation, fails func([]byte) *Violation, budget int) []byte {
	var pl C16Plan
	json.Unmarshal(planJSON, &pl)
	best := planJSON
	like := pl.Only
	try := func(c C16Plan) bool {
		c.Only = nil
		c.Like = like
		if got := fails(mustJSON(c)); got != nil {
			best = got.Plan
			return true
		}
		return false
	}
	cur := pl
	cur.Only = nil
	// 1. simplest chunk schedule
	c := cur
	c.Read = ReadPlan{}
	budget--
	if try(c) {
		cur = c
	}
	// 2. input
	cur.Input = ddminBytes(cur.Input, func(b []byte) bool { c := cur; c.Input = b; return try(c) }, &budget)
	// 3. recipe
	cur.Recipe = shrinkRecipe(cur.Recipe, func(rc Recipe) bool { c := cur; c.Recipe = rc; return try(c) }, &budget)
	// 4. input again (a smaller policy often allows a smaller input)
	cur.Input = ddminBytes(cur.Input, func(b []byte) bool { c := cur; c.Input = b; return try(c) }, &budget)
	try(cur)
	return best
}

func init() {
	engines["C16"] = &Engine{ID: "C16", Gen: genC16, Run: runC16, Shrink: shrinkC16, CasesQuick: 400, InProcessShrink: true}
}
