package main

import (
	"fmt"
	"regexp"
	"sort"
	"strings"
)

// ---- vocabulary shared by recipe and input generators ----

var customEls = []string{"my-el", "my-widget", "x-el", "x-widget", "my-box", "x-foo", "card-el", "my-x-el"}

// overlapping on purpose: my-el matches 0,1,4,5; x-el matches 1,2,5; my-widget 0,3,4 ...
var elPatterns = []string{`^my-[a-z0-9-]+$`, `-el$`, `^x-`, `^[a-z]+-widget$`, `^my-`, `^(?:x|my)-el$`}

var stdEls = []string{"a", "p", "b", "i", "div", "span", "img", "table", "tr", "td", "ul", "li", "blockquote", "q",
	"h1", "br", "hr", "iframe", "video", "audio", "link", "area", "font", "button", "input", "form", "select", "option",
	"textarea", "title", "script", "style", "svg", "math", "object", "embed", "base", "meta", "noscript", "plaintext",
	"xmp", "details", "summary", "pre", "code", "del", "ins", "col", "bdo", "source", "track", "nostyle", "frameset"}

var voidEls = map[string]bool{"br": true, "hr": true, "img": true, "input": true, "link": true, "meta": true, "area": true,
	"base": true, "col": true, "embed": true, "source": true, "track": true}

var rawTextEls = []string{"script", "style", "textarea", "title", "iframe", "noscript", "noembed", "noframes", "plaintext", "xmp"}

var attrNames = []string{"title", "id", "class", "lang", "dir", "align", "width", "height", "href", "src", "cite", "rel",
	"target", "alt", "type", "name", "value", "sandbox", "crossorigin", "style", "data-x", "datetime", "onclick", "onerror"}

var hostileAttrs = []string{"onclick", "onerror", "onload", "formaction", "srcdoc", "xlink:href", "data-xmlfoo", "data-UP", "xmlns"}

var valuePatterns = []string{"bm:Integer", "bm:Number", "bm:NumberOrPercent", "bm:Paragraph", "bm:SpaceSeparatedTokens",
	"bm:Direction", "bm:ImageAlign", "bm:CellAlign", "bm:ListType", "bm:ISO8601",
	`^[a-z]+$`, `^[0-9]{1,3}$`, `^(left|right)$`, `(?i)^ok-`, `^.{0,8}$`}

var valueSamples = map[string][]string{
	"bm:Integer":              {"12", "0", "-3", "1e3", "12px"},
	"bm:Number":               {"1.5", "12", "-0.5", "abc"},
	"bm:NumberOrPercent":      {"50%", "12", "5%%"},
	"bm:Paragraph":            {"Hello world", "a, b.", "<x>"},
	"bm:SpaceSeparatedTokens": {"a b c", "x", "a,b"},
	"bm:Direction":            {"rtl", "ltr", "up"},
	"bm:ImageAlign":           {"left", "top", "middle", "x"},
	"bm:CellAlign":            {"center", "justify", "char", "no"},
	"bm:ListType":             {"circle", "disc", "1", "a", "zz"},
	"bm:ISO8601":              {"2020-01-02", "2020-01-02T10:00:00Z", "yesterday"},
	`^[a-z]+$`:                {"abc", "ABC", "a1"},
	`^[0-9]{1,3}$`:            {"7", "123", "1234"},
	`^(left|right)$`:          {"left", "right", "center"},
	`(?i)^ok-`:                {"ok-1", "OK-x", "nok"},
	`^.{0,8}$`:                {"short", "waytoolongvalue"},
}

var genericVals = []string{"", "x", "a b", `a"b`, "a'b", "<b>", "&amp;", "&#x6a;avascript:alert(1)", "javascript:alert(1)",
	"_blank", "_self", "nofollow", "noopener noreferrer", "anonymous", "use-credentials", "allow-forms allow-scripts allow-forms",
	"allow-popups", "é", " ", "a\tb", "a\nb"}

var urlSamples = []string{"http://example.com/", "https://example.org/a?b=c&d=e", "//cdn.example/x.png", "/rel/path",
	"rel.html", "#frag", "?q=1", "mailto:a@b.c", "ftp://f.example/x", "javascript:alert(1)", "JaVaScRiPt:alert(1)",
	" http://sp.example/ ", "http://a b/", "data:image/png;base64,iVBORw0KGgo=", "data:text/html;base64,PHNjcmlwdD4=",
	"data:image/gif;base64,R0lG\nODlh", "data:image/png;base64,iVBOR!!", "data:image/jpeg;base64,/9j/4AAQ", "data:image/png;base64,AAA",
	"data:image/png;base64,iVBORw0KGgo=#frag", "DATA:image/png;base64,iVBORw0KGgo=", "data&#58;image/gif;base64,R0lGODlh",
	"data:image&#x2F;gif;base64,R0lGODlh", "app://open/x", "tel:+123", "http://good.example/p/x?y=1", "http://bad.example/",
	"http://[::1]:80/", "http://%zz/", ":bad", "HTTP://UP.example/", "http://u:p@h.example/?a=1&amp;b=<2>", "https://good.example/p/"}

var schemes = []string{"http", "https", "mailto", "ftp", "tel", "data", "app", "javascript"}

var urlPolicyNames = []string{"true", "false", "noquery", "host=good.example", "host=example.com", "pathprefix=/p/"}

var styleProps = []string{"color", "background-color", "font-size", "text-align", "width", "margin", "x-prop", "float",
	"font", "border", "padding", "background", "outline", "list-style", "border-top", "text-decoration"}
var defaultHandledProps = []string{"color", "background-color", "font-size", "text-align", "width", "margin", "float",
	"font", "border", "padding", "background", "outline", "list-style", "border-top", "text-decoration",
	// long-tail names: no handler of their own in most CSS tables, but close to several that exist
	"font-variant-ligatures", "background-position-x", "border-inline-start", "margin-inline", "text-decoration-thickness",
	"font-feature-settings", "overflow-wrap", "border-top-left-radius", "list-style-position"}
var styleVals = []string{"red", "#fff", "12px", "center", "50%", "url(http://x.example/y.png)", "expression(alert(1))",
	"r\\65 d", "r\\000065 d", "\\110000 x", "\\0000065d", "javascript:x", "1", "123456789", "bold", "left", "blue", "RED", "12PX",
	// shorthand values of four and more tokens
	"1px 2px 3px 4px", "italic bold 12px serif", "1px solid red inherit", "italic small-caps bold 12px serif", "thin dashed blue transparent",
	"1px 2px 3px 4px 5px", "red none repeat scroll 0 0", "underline overline dotted red"}
var styleEnums = [][]string{{"red", "blue"}, {"center", "left"}, {"12px", "1"}}
var styleRes = []string{`^[a-z]+$`, `^[0-9]+px$`, `^#[0-9a-f]{3}$`}
var styleFns = []string{"digits", "short", "noparen", "true", "false", "maxlen=3", "maxlen=9", "prefix=re", "prefix=b", "prefix=1"}

// cssProps: the standard CSS property names (public CSS vocabulary), used with the library's
// default handlers so that the css package is exercised broadly, also under concurrency.
var cssProps = strings.Fields(`align-content align-items align-self all animation animation-delay animation-direction animation-duration animation-fill-mode animation-iteration-count animation-name animation-play-state animation-timing-function backface-visibility background background-attachment background-blend-mode background-clip background-color background-image background-origin background-position background-repeat background-size border border-bottom border-bottom-color border-bottom-left-radius border-bottom-right-radius border-bottom-style border-bottom-width border-collapse border-color border-image border-image-outset border-image-repeat border-image-slice border-image-source border-image-width border-left border-left-color border-left-style border-left-width border-radius border-right border-right-color border-right-style border-right-width border-spacing border-style border-top border-top-color border-top-left-radius border-top-right-radius border-top-style border-top-width border-width bottom box-decoration-break box-shadow box-sizing break-after break-before break-inside caption-side caret-color clear clip color column-count column-fill column-gap column-rule column-rule-color column-rule-style column-rule-width column-span column-width columns cursor direction display empty-cells filter flex flex-basis flex-direction flex-flow flex-grow flex-shrink flex-wrap float font font-family font-kerning font-language-override font-size font-size-adjust font-stretch font-style font-synthesis font-variant font-variant-caps font-variant-position font-weight grid grid-area grid-auto-columns grid-auto-flow grid-auto-rows grid-column grid-column-end grid-column-gap grid-column-start grid-gap grid-row grid-row-end grid-row-gap grid-row-start grid-template grid-template-areas grid-template-columns grid-template-rows hanging-punctuation height hyphens image-rendering isolation justify-content left letter-spacing line-break line-height list-style list-style-image list-style-position list-style-type margin margin-bottom margin-left margin-right margin-top max-height max-width min-height min-width mix-blend-mode object-fit object-position opacity order orphans outline outline-color outline-offset outline-style outline-width overflow overflow-wrap overflow-x overflow-y padding padding-bottom padding-left padding-right padding-top page-break-after page-break-before page-break-inside perspective perspective-origin pointer-events position quotes resize right scroll-behavior tab-size table-layout text-align text-align-last text-combine-upright text-decoration text-decoration-color text-decoration-line text-decoration-style text-indent text-justify text-orientation text-overflow text-shadow text-transform top transform transform-origin transform-style transition transition-delay transition-duration transition-property transition-timing-function unicode-bidi user-select vertical-align visibility white-space widows width word-break word-spacing word-wrap writing-mode z-index`)

// cssVals: values of the usual CSS value spaces.
var cssVals = []string{"auto", "none", "inherit", "initial", "center", "flex", "block", "row", "wrap", "bold", "solid", "dashed", "10px", "2em",
	"50%", "1.5", "0", "#abc", "#a1b2c3", "rgb(1,2,3)", "rgba(1,2,3,0.5)", "hsl(120,50%,50%)", "url(http://x.example/i.png)", "url(javascript:alert(1))",
	"\"Times New Roman\"", "serif", "1s", "ease-in", "2", "0 0 5px #000", "rotate(45deg)", "1fr 2fr", "repeat(2, 1fr)", "calc(1px + 2px)",
	"left top", "both", "hidden", "visible", "absolute", "uppercase", "underline", "nowrap", "pointer", "ltr", "table", "baseline", "thin",
	"1px solid red", "italic bold 12px/30px Georgia, serif", "red url(http://x.example/a.png) no-repeat", "all 1s ease-in 2s", "span 2", "1 / 3", "10px 20px"}

// Vocab is what the input generator knows about a recipe: names worth using.
type Vocab struct {
	Els        []string
	Attrs      []string
	Vals       []string
	URLs       []string
	StyleProps []string
	StyleVals  []string
	HotProps   []string // style properties the recipe itself allows
	HotURLs    []string // URLs of schemes the recipe registers (custom checks, data URIs)
}

var shorthandProps = map[string]bool{"font": true, "border": true, "padding": true, "background": true, "outline": true,
	"list-style": true, "border-top": true, "text-decoration": true, "margin": true}

var multiTokenVals = []string{"1px 2px 3px 4px", "italic bold 12px serif", "1px solid red inherit", "italic small-caps bold 12px serif",
	"thin dashed blue transparent", "1px 2px 3px 4px 5px", "red none repeat scroll 0 0", "underline overline dotted red",
	"1px 2px solid red", "comic sans extra bold", "1px 3px solid red", "bold italic large serif"}

// GenOpts biases the swarm towards what a property needs.
type GenOpts struct {
	Fresh        string  // run-specific token, keeps content-keyed caches cold
	WantPatterns bool    // at least two overlapping element patterns with different rules
	WantComments float64 // probability of AllowComments
	WantSpaces   float64
	WantUnsafe   float64
	WantCallback float64
	ZeroBase     float64 // probability of starting from the zero value &Policy{} (never for C13: its quantifier is constructor-built policies)
}

func subset(r *RNG, xs []string, lo, hi int) []string {
	n := r.Range(lo, hi)
	if n > len(xs) {
		n = len(xs)
	}
	p := r.Perm(len(xs))
	out := make([]string, 0, n)
	for _, i := range p[:n] {
		out = append(out, xs[i])
	}
	return out
}

func genAttrChain(r *RNG, els []string, fresh string) Op {
	o := Op{K: "AllowAttrs"}
	pool := attrNames
	if fresh != "" && r.Bool(0.2) {
		pool = append(append([]string{}, attrNames...), "v-"+fresh)
	}
	o.Names = subset(r, pool, 1, 3)
	if r.Bool(0.55) {
		o.Re = r.Pick(valuePatterns)
	}
	if r.Bool(0.1) {
		o.NoAttrs = true
	}
	switch r.Intn(10) {
	case 0, 1:
		o.Scope = "glob"
		o.NoAttrs = false
	case 2, 3, 4:
		o.Scope = "elsre"
		o.ElRe = r.Pick(elPatterns)
	default:
		o.Scope = "els"
		o.Els = subset(r, els, 1, 3)
	}
	if r.Bool(0.12) { // the builder value is used for a second scope call
		switch r.Intn(3) {
		case 0:
			o.Scope2 = "glob"
		case 1:
			o.Scope2, o.ElRe2 = "elsre", r.Pick(elPatterns)
		default:
			o.Scope2, o.Els2 = "els", subset(r, els, 1, 2)
		}
		if o.Re != "" && r.Bool(0.5) {
			o.Re2 = r.Pick(valuePatterns) // the builder's matcher is changed between the two scope calls
		}
	}
	return o
}

// overlapping pattern pairs and an element both match
var overlapPairs = [][3]string{{`^my-`, `-el$`, "my-el"}, {`^x-`, `-el$`, "x-el"}, {`^my-[a-z0-9-]+$`, `^[a-z]+-widget$`, "my-widget"},
	{`^my-`, `^(?:x|my)-el$`, "my-el"}, {`^x-`, `^[a-z]+-widget$`, "x-widget"}}

// genOverlapPair: the SAME attribute and the SAME style property bound, with different
// matchers, to two different patterns that both match one element: the rules must
// accumulate whatever order the pattern table is visited in.
func genOverlapPair(r *RNG) []Op {
	pr := overlapPairs[r.Intn(len(overlapPairs))]
	attr := r.Pick([]string{"title", "align", "width", "lang"})
	pats := subset(r, valuePatterns, 2, 2)
	prop := r.Pick([]string{"color", "text-align", "width", "x-prop"})
	styles := []Op{
		{K: "AllowStyles", Names: []string{prop}, Enum: []string{"red", "center"}},
		{K: "AllowStyles", Names: []string{prop}, Re: `^[0-9]+px$`},
		{K: "AllowStyles", Names: []string{prop}, Fn: "digits"},
		{K: "AllowStyles", Names: []string{prop}, Re: `^#[0-9a-f]{3}$`},
		{K: "AllowStyles", Names: []string{prop}, Enum: []string{"blue", "left"}},
	}
	pm := r.Perm(len(styles))
	s1, s2 := styles[pm[0]], styles[pm[1]]
	s1.Scope, s1.ElRe = "elsre", pr[0]
	s2.Scope, s2.ElRe = "elsre", pr[1]
	return []Op{
		{K: "AllowAttrs", Names: []string{attr}, Re: pats[0], Scope: "elsre", ElRe: pr[0]},
		{K: "AllowAttrs", Names: []string{attr}, Re: pats[1], Scope: "elsre", ElRe: pr[1]},
		s1, s2,
	}
}

// genRulePile: three to seven rules for ONE attribute in ONE slot (a pattern, the global
// table or an element), so that the slot's rule list has grown by appends and has spare
// capacity; plus rules for the same attribute elsewhere.
func genRulePile(r *RNG, els []string) []Op {
	name := r.Pick([]string{"title", "align", "width", "lang", "value", "height"})
	n := r.Pick([]string{"3", "3", "5", "6", "7"})
	cnt := int(n[0] - '0')
	scope := r.Pick([]string{"elsre", "glob", "els"})
	pat := r.Pick(elPatterns)
	el := r.Pick(els)
	var out []Op
	for i := 0; i < cnt; i++ {
		o := Op{K: "AllowAttrs", Names: []string{name}, Re: valuePatterns[(r.Intn(len(valuePatterns)))], Scope: scope}
		switch scope {
		case "elsre":
			o.ElRe = pat
		case "els":
			o.Els = []string{el}
		}
		out = append(out, o)
	}
	// the same attribute under other, overlapping slots
	out = append(out, Op{K: "AllowAttrs", Names: []string{name}, Re: r.Pick(valuePatterns), Scope: "elsre", ElRe: r.Pick(elPatterns)},
		Op{K: "AllowAttrs", Names: []string{name}, Re: r.Pick(valuePatterns), Scope: "els", Els: subset(r, els, 1, 2)},
		Op{K: "AllowAttrs", Names: []string{name}, Re: r.Pick(valuePatterns), Scope: "els", Els: subset(r, els, 1, 2)})
	return out
}

func genStyleChain(r *RNG, els []string) Op {
	o := Op{K: "AllowStyles"}
	switch r.Intn(6) {
	case 5:
		o.Names = subset(r, cssProps, 2, 8) // default handlers, broad
	case 0:
		o.Names = subset(r, defaultHandledProps, 1, 3) // default handler
	case 1:
		o.Names = subset(r, styleProps, 1, 2)
		o.Enum = styleEnums[r.Intn(len(styleEnums))]
	case 2:
		o.Names = subset(r, styleProps, 1, 2)
		o.Re = r.Pick(styleRes)
	case 3:
		o.Names = subset(r, styleProps, 1, 2)
		o.Fn = r.Pick(styleFns)
	default:
		o.Names = subset(r, defaultHandledProps, 1, 2)
	}
	switch r.Intn(10) {
	case 0, 1:
		o.Scope = "glob"
	case 2, 3, 4, 5:
		o.Scope = "elsre"
		o.ElRe = r.Pick(elPatterns)
	default:
		o.Scope = "els"
		o.Els = subset(r, els, 1, 2)
	}
	if r.Bool(0.15) { // the style builder value is used for a second scope call, possibly with another matcher of the same kind
		switch r.Intn(3) {
		case 0:
			o.Scope2 = "glob"
		case 1:
			o.Scope2, o.ElRe2 = "elsre", r.Pick(elPatterns)
		default:
			o.Scope2, o.Els2 = "els", subset(r, els, 1, 2)
		}
		if r.Bool(0.6) {
			switch {
			case o.Fn != "":
				o.Fn2 = r.Pick(styleFns)
			case len(o.Enum) > 0:
				o.Enum2 = styleEnums[r.Intn(len(styleEnums))]
			case o.Re != "":
				o.Re2 = r.Pick(styleRes)
			}
		}
	}
	return o
}

var allSandbox = []int{0, 1, 2, 3, 4, 5, 6, 7, 8, 9, 10, 11, 12, 13}

func genSandbox(r *RNG) []int {
	n := r.Intn(5)
	p := r.Perm(len(allSandbox))
	out := append([]int{}, p[:n]...)
	sort.Ints(out)
	return out
}

// GenRecipe assembles a policy swarm-style: a random subset of feature
// families per run.
func GenRecipe(r *RNG, opt GenOpts) Recipe {
	rc := Recipe{}
	switch r.Intn(10) {
	case 0, 1, 2, 3:
		rc.Base = "ugc"
	case 4:
		rc.Base = r.Pick([]string{"strict", "strict", "striptags"})
	default:
		rc.Base = "new"
	}
	if r.Bool(opt.ZeroBase) {
		rc.Base = "zero"
	}
	if r.Bool(0.06) {
		// a policy that allows no element at all (StrictPolicy as shipped, plus at most a few
		// switch-like options): the most common real-world use, and a natural target of fast paths
		rc.Base = r.Pick([]string{"strict", "strict", "striptags", "new"})
		for _, o := range []Op{{K: "AddSpaceWhenStrippingTag", B: true}, {K: "SkipElementsContent", Names: []string{r.Pick([]string{"div", "p", "my-el"})}},
			{K: "AllowElementsContent", Names: []string{r.Pick([]string{"title", "iframe", "object", "noscript"})}}, {K: "RequireParseableURLs", B: true},
			{K: "AllowDataAttributes"}, {K: "RequireNoFollowOnLinks", B: true}} {
			if r.Bool(0.2) {
				rc.Ops = append(rc.Ops, o)
			}
		}
		return rc
	}
	elPool := append(append([]string{}, stdEls...), customEls...)
	if opt.Fresh != "" {
		elPool = append(elPool, "my-r"+opt.Fresh, "r"+opt.Fresh+"-el")
	}
	myEls := subset(r, elPool, 2, 8)
	add := func(o Op) { rc.Ops = append(rc.Ops, o) }

	feature := func(p float64) bool { return r.Bool(p) }

	if feature(0.7) {
		add(Op{K: "AllowElements", Names: subset(r, myEls, 1, 5)})
	}
	npat := 0
	if opt.WantPatterns || feature(0.5) {
		npat = r.Range(2, 4)
	}
	for i := 0; i < npat; i++ {
		pat := r.Pick(elPatterns)
		switch r.Intn(4) {
		case 0:
			add(Op{K: "AllowElementsMatching", Re: pat})
		case 1:
			add(Op{K: "AllowNoAttrs", Scope: "elsre", ElRe: pat})
		default:
			o := genAttrChain(r, myEls, opt.Fresh)
			o.Scope, o.ElRe, o.Els = "elsre", pat, nil
			add(o)
		}
		if feature(0.6) {
			o := genStyleChain(r, myEls)
			o.Scope, o.ElRe, o.Els = "elsre", pat, nil
			add(o)
		}
	}
	for i, n := 0, r.Range(0, 5); i < n; i++ {
		add(genAttrChain(r, myEls, opt.Fresh))
	}
	if feature(0.3) {
		for _, o := range genRulePile(r, myEls) {
			add(o)
		}
	}
	if opt.WantPatterns && feature(0.5) || feature(0.15) {
		for _, o := range genOverlapPair(r) {
			add(o)
		}
	}
	for i, n := 0, r.Range(0, 3); i < n; i++ {
		add(genStyleChain(r, myEls))
	}
	if feature(0.15) {
		add(Op{K: "AllowNoAttrs", Scope: "els", Els: subset(r, myEls, 1, 2)})
	}
	// URL handling
	if feature(0.6) {
		add(Op{K: "AllowAttrs", Names: []string{"href"}, Scope: "els", Els: []string{"a", "area", "link"}})
		add(Op{K: "AllowAttrs", Names: []string{"src"}, Scope: "els", Els: []string{"img", "video", "audio", "iframe", "source"}})
		add(Op{K: "AllowAttrs", Names: []string{"cite"}, Scope: "els", Els: []string{"blockquote", "q", "del", "ins"}})
		if feature(0.5) {
			add(Op{K: "AllowAttrs", Names: []string{"rel", "target"}, Scope: "els", Els: []string{"a", "area", "link"}})
		}
	}
	if feature(0.3) {
		add(Op{K: "AllowStandardURLs"})
	}
	if feature(0.5) {
		sch := subset(r, schemes, 1, 3)
		if opt.Fresh != "" && feature(0.3) {
			sch = append(sch, "x-r"+opt.Fresh)
		}
		add(Op{K: "AllowURLSchemes", Names: sch})
	}
	if feature(opt.WantCallback) {
		for i, n := 0, r.Range(1, 3); i < n; i++ {
			add(Op{K: "AllowURLSchemeWithCustomPolicy", Names: []string{r.Pick([]string{"http", "https", "http", "app", "ftp", "mailto"})}, Fn: r.Pick(urlPolicyNames)})
		}
		// a callback nobody reaches explores nothing: make sure URL attributes survive to it
		add(Op{K: "AllowAttrs", Names: []string{"href"}, Scope: "els", Els: []string{"a", "area"}})
		add(Op{K: "AllowAttrs", Names: []string{"src"}, Scope: "els", Els: []string{"img", "video"}})
		if feature(0.5) {
			add(Op{K: "AllowStyles", Names: subset(r, styleProps, 1, 2), Fn: r.Pick(styleFns), Scope: "glob"})
		}
	}
	if feature(0.1) {
		add(Op{K: "AllowURLSchemesMatching", Re: r.Pick([]string{`^x-`, `^(app|tel)$`, `^[a-z]{3}$`})})
	}
	if feature(0.3) {
		add(Op{K: "AllowRelativeURLs", B: r.Bool(0.8)})
	}
	if feature(0.15) {
		add(Op{K: "RequireParseableURLs", B: r.Bool(0.7)})
	}
	for _, k := range []string{"RequireNoFollowOnLinks", "RequireNoFollowOnFullyQualifiedLinks", "RequireNoReferrerOnLinks",
		"RequireNoReferrerOnFullyQualifiedLinks", "AddTargetBlankToFullyQualifiedLinks"} {
		if feature(0.2) {
			add(Op{K: k, B: r.Bool(0.8)})
		}
	}
	if feature(0.2) {
		add(Op{K: "RequireCrossOriginAnonymous", B: r.Bool(0.8)})
	}
	if feature(0.15) {
		add(Op{K: "RequireSandboxOnIFrame", Ints: genSandbox(r)})
	}
	if feature(0.15) {
		add(Op{K: "AllowIFrames", Ints: genSandbox(r)})
	}
	if feature(0.25) {
		add(Op{K: "AllowDataAttributes"})
	}
	if feature(opt.WantComments) {
		add(Op{K: "AllowComments"})
	}
	if feature(opt.WantSpaces) {
		add(Op{K: "AddSpaceWhenStrippingTag", B: true})
	}
	if feature(0.2) {
		add(Op{K: "SkipElementsContent", Names: subset(r, elPool, 1, 2)})
	}
	if feature(0.2) {
		add(Op{K: "AllowElementsContent", Names: subset(r, []string{"script", "style", "iframe", "title", "noscript", "object"}, 1, 2)})
	}
	if feature(0.15 + 0.25*opt.WantCallback) {
		add(Op{K: "AllowDataURIImages"})
		if feature(0.8) {
			add(Op{K: "AllowAttrs", Names: []string{"src"}, Scope: "els", Els: []string{"img"}})
		}
	}
	if feature(opt.WantCallback * 0.7) {
		add(Op{K: "RewriteSrc", Fn: r.Pick([]string{"proxy", "addq"})})
	}
	if feature(opt.WantUnsafe) {
		add(Op{K: "AllowUnsafe", B: true})
		add(Op{K: "AllowElements", Names: subset(r, []string{"script", "style"}, 1, 2)})
		if feature(0.5) {
			add(Op{K: "AllowAttrs", Names: []string{"type", "src"}, Scope: "els", Els: []string{"script", "style"}})
		}
	}
	for _, k := range []string{"AllowStandardAttributes", "AllowStyling", "AllowImages", "AllowLists", "AllowTables"} {
		if feature(0.1) {
			add(Op{K: k})
		}
	}
	// shuffle: construction order must not matter (C17) and the swarm should
	// not always see the same order
	p := r.Perm(len(rc.Ops))
	ops := make([]Op, len(rc.Ops))
	for i, j := range p {
		ops[i] = rc.Ops[j]
	}
	rc.Ops = ops
	return rc
}

// VocabOf derives the input vocabulary from a recipe (plus built-in names).
func VocabOf(rc Recipe, fresh string) Vocab {
	set := func() (func(...string), func() []string) {
		m := map[string]bool{}
		var l []string
		return func(xs ...string) {
				for _, x := range xs {
					if !m[x] {
						m[x] = true
						l = append(l, x)
					}
				}
			}, func() []string {
				return l
			}
	}
	addEl, els := set()
	addAt, ats := set()
	addVal, vals := set()
	addURL, urls := set()
	addSP, sps := set()
	addSV, svs := set()
	addHP, hps := set()
	addHU, hus := set()
	var pats []string
	for _, o := range rc.Ops {
		switch o.K {
		case "AllowElements", "SkipElementsContent", "AllowElementsContent":
			addEl(o.Names...)
		case "AllowElementsMatching":
			pats = append(pats, o.Re)
		case "AllowAttrs", "AllowNoAttrs":
			addAt(o.Names...)
			addEl(o.Els...)
			addEl(o.Els2...)
			if o.ElRe != "" {
				pats = append(pats, o.ElRe)
			}
			if o.ElRe2 != "" {
				pats = append(pats, o.ElRe2)
			}
			if o.Re != "" {
				addVal(valueSamples[o.Re]...)
			}
		case "AllowStyles":
			addSP(o.Names...)
			addHP(o.Names...)
			addEl(o.Els...)
			addAt("style")
			if o.ElRe != "" {
				pats = append(pats, o.ElRe)
			}
			addSV(o.Enum...)
		case "AllowURLSchemes", "AllowURLSchemeWithCustomPolicy":
			for _, s := range o.Names {
				addURL(s+"://good.example/p/q?x=1", s+":opaque")
				addHU(s+"://good.example/p/q?x=1", s+"://example.com/p/", s+"://good.example/other?x=1", s+"://bad.example/p/")
			}
		case "AllowDataURIImages":
			for _, u := range urlSamples {
				if strings.Contains(strings.ToLower(u), "data") {
					addHU(u) // every spelling of a data URI, also upper-case and entity-encoded ones
				}
			}
		}
	}
	cands := append([]string{}, customEls...)
	if fresh != "" {
		cands = append(cands, "my-r"+fresh, "r"+fresh+"-el", "x-r"+fresh)
	}
	for _, ps := range pats {
		re := regexp.MustCompile(ps)
		for _, c := range cands {
			if re.MatchString(c) {
				addEl(c)
			}
		}
	}
	if rc.Base == "ugc" {
		addEl("a", "p", "b", "img", "table", "td", "blockquote", "q", "ol", "li", "h2", "abbr", "time", "details", "meter", "del", "bdo", "col", "map", "area")
		addAt("href", "src", "cite", "title", "id", "dir", "lang", "alt", "width", "height", "datetime", "open", "align", "colspan", "scope", "headers", "value", "type", "start", "span")
	}
	addEl("b", "p", "a", "img", "script", "style", "iframe", "title", "textarea", "div", "my-el", "x-el")
	addAt("href", "src", "title", "style", "onclick", "rel", "target", "id", "sandbox", "crossorigin")
	addVal(genericVals...)
	addURL(urlSamples...)
	if fresh != "" {
		addURL("x-r"+fresh+"://h/p", "http://r"+fresh+".example/p/?k="+fresh)
		addVal("v" + fresh)
	}
	addSP(styleProps...)
	addSP("-webkit-color", "COLOR", "mso-width")
	addSV(styleVals...)
	return Vocab{Els: els(), Attrs: ats(), Vals: vals(), URLs: urls(), StyleProps: sps(), StyleVals: svs(), HotProps: hps(), HotURLs: hus()}
}

// Themed narrows a vocabulary to a few names and values, so that the same element, URL,
// attribute value or style value occurs many times within one input and across the inputs
// of a plan: content-keyed caches and "last value" memos only misbehave on repeats.
func (v Vocab) Themed(r *RNG) Vocab {
	pick := func(xs []string, lo, hi int) []string {
		if len(xs) == 0 {
			return xs
		}
		return subset(r, xs, lo, hi)
	}
	t := Vocab{
		Els:        pick(v.Els, 2, 5),
		Attrs:      pick(v.Attrs, 2, 5),
		Vals:       pick(v.Vals, 2, 4),
		URLs:       pick(v.URLs, 2, 4),
		StyleProps: pick(v.StyleProps, 2, 4),
		StyleVals:  pick(v.StyleVals, 2, 4),
		HotProps:   v.HotProps,
		HotURLs:    pick(v.HotURLs, 2, 4),
	}
	// keep URL- and style-carrying attributes in play
	t.Attrs = append(t.Attrs, "href", "src", "style")
	t.Els = append(t.Els, "a", "img")
	return t
}

// ---- input generation ----

type inGen struct {
	r  *RNG
	v  Vocab
	sb strings.Builder
}

func (g *inGen) caseMut(s string) string {
	if !g.r.Bool(0.15) {
		return s
	}
	b := []byte(s)
	for i := range b {
		if b[i] >= 'a' && b[i] <= 'z' && g.r.Bool(0.4) {
			b[i] -= 32
		}
	}
	return string(b)
}

func (g *inGen) elName() string {
	if g.r.Bool(0.7) {
		return g.r.Pick(g.v.Els)
	}
	if g.r.Bool(0.5) {
		return g.r.Pick(stdEls)
	}
	return g.r.Pick(customEls)
}

var entityForms = []string{"&amp;", "&lt;", "&gt;", "&quot;", "&#39;", "&#x3c;", "&#60;", "&#x3C", "&notanentity;", "&", "&#",
	"&#x", "&amp", "&nbsp;", "&#0;", "&#x110000;", "&Aacute;", "&lt", "&#9;",
	// numeric references to the characters serialisers treat specially
	"&#13;", "&#xD;", "&#xd;", "&#10;", "&#x0A;", "&#34;", "&#38;", "&#62;", "&#43;", "&#96;", "&#x2F;", "&#160;", "&#x27;", "&#13;&#10;",
	"&NewLine;", "&Tab;", "&apos;", "&#128;", "&#x80;", "&#xFFFD;", "&#xD800;", "&amp;amp;", "&amp;#13;", "&#x26;lt;"}

func (g *inGen) text() string {
	var sb strings.Builder
	for i, n := 0, g.r.Range(1, 5); i < n; i++ {
		switch g.r.Intn(14) {
		case 0:
			sb.WriteString(g.r.Pick(entityForms))
		case 1:
			sb.WriteString(g.r.Pick([]string{"\r\n", "\r", "\n", "\t", " ", "  "}))
		case 2:
			sb.WriteString(g.r.Pick([]string{"\x00", "\xff\xfe", "\xc3", "\u00e9", "\u65e5\u672c", "\U0001F600", "\u00a0", "\u2028", "\ufeff",
				"\u202e", "\u202a", "\u2066", "\u2069", "\u200f", "a\u202eb\u202c"}))
		case 3:
			sb.WriteString(g.r.Pick([]string{"<", ">", "<<", "< b", "a<b", "1 < 2 > 0", "\"", "'", "`", "=", "/"}))
		default:
			sb.WriteString(g.r.Pick([]string{"hello", "world", "x", "Lorem ipsum", "a b c", "42", "ok", "T"}))
		}
	}
	return sb.String()
}

func (g *inGen) entityObfuscate(s string) string {
	if !g.r.Bool(0.1) || len(s) == 0 {
		return s
	}
	var sb strings.Builder
	for i := 0; i < len(s); i++ {
		c := s[i]
		if c < 0x80 && g.r.Bool(0.3) {
			if g.r.Bool(0.5) {
				fmt.Fprintf(&sb, "&#x%x;", c)
			} else {
				fmt.Fprintf(&sb, "&#%d;", c)
			}
		} else {
			sb.WriteByte(c)
		}
	}
	return sb.String()
}

func (g *inGen) styleValue() string {
	var sb strings.Builder
	ndecl := g.r.Range(1, 4)
	if g.r.Bool(0.08) {
		ndecl = g.r.Range(8, 24) // the long style attributes of HTML e-mail
	}
	for i, n := 0, ndecl; i < n; i++ {
		prop := g.r.Pick(g.v.StyleProps)
		if len(g.v.HotProps) > 0 && g.r.Bool(0.6) {
			prop = g.r.Pick(g.v.HotProps)
		}
		sb.WriteString(g.caseMut(prop))
		sb.WriteString(g.r.Pick([]string{":", ": ", " : "}))
		if shorthandProps[prop] && g.r.Bool(0.5) {
			sb.WriteString(g.r.Pick(multiTokenVals))
		} else if g.r.Bool(0.35) {
			sb.WriteString(g.r.Pick(cssVals))
		} else {
			sb.WriteString(g.r.Pick(g.v.StyleVals))
		}
		if g.r.Bool(0.1) {
			sb.WriteString(" !important")
		}
		if i < n-1 || g.r.Bool(0.5) {
			sb.WriteString(g.r.Pick([]string{";", "; ", " ;"}))
		}
	}
	if g.r.Bool(0.05) {
		sb.WriteString(g.r.Pick([]string{"}", "/* c */", "@import 'x'", ";;", "color"}))
	}
	return sb.String()
}

func (g *inGen) attrValue(name string) string {
	switch name {
	case "href", "src", "cite", "action", "formaction", "xlink:href":
		if len(g.v.HotURLs) > 0 && g.r.Bool(0.45) {
			return g.r.Pick(g.v.HotURLs)
		}
		if g.r.Bool(0.85) {
			return g.entityObfuscate(g.r.Pick(g.v.URLs))
		}
	case "style":
		if g.r.Bool(0.9) {
			return g.styleValue()
		}
	}
	return g.r.Pick(g.v.Vals)
}

// natural URL attribute of an element, if it has one
var urlAttrOf = map[string]string{"a": "href", "area": "href", "link": "href", "base": "href", "img": "src", "video": "src", "audio": "src",
	"iframe": "src", "source": "src", "track": "src", "embed": "src", "script": "src", "input": "src", "blockquote": "cite", "q": "cite", "del": "cite", "ins": "cite"}

// attrsFor: like attrs, but an element that has a natural URL attribute usually carries it
// (attributes drawn uniformly from the whole vocabulary almost never put an href on an <a>).
func (g *inGen) attrsFor(el string) string {
	out := g.attrs()
	if ua, ok := urlAttrOf[strings.ToLower(el)]; ok && g.r.Bool(0.6) {
		val := g.attrValue(ua)
		out += " " + g.caseMut(ua) + `="` + strings.ReplaceAll(val, `"`, "&quot;") + `"`
		if g.r.Bool(0.3) && (ua == "href") {
			out += ` rel="` + g.r.Pick([]string{"x", "nofollow", "noopener", "me noreferrer"}) + `"` + g.r.Pick([]string{"", ` target="_blank"`, ` target="_self"`})
		}
	}
	return out
}

func (g *inGen) attrs() string {
	var sb strings.Builder
	n := 0
	switch g.r.Intn(6) {
	case 0:
		n = 0
	case 1, 2:
		n = 1
	case 3, 4:
		n = 2
	default:
		n = g.r.Range(3, 6)
	}
	var last string
	for i := 0; i < n; i++ {
		var name string
		switch {
		case last != "" && g.r.Bool(0.08):
			name = last // duplicate attribute
		case g.r.Bool(0.8):
			name = g.r.Pick(g.v.Attrs)
		case g.r.Bool(0.5):
			name = g.r.Pick(hostileAttrs)
		default:
			name = g.r.Pick(attrNames)
		}
		last = name
		sb.WriteString(g.r.Pick([]string{" ", " ", " ", "\n", "\t", " / ", "  "}))
		sb.WriteString(g.caseMut(name))
		val := g.attrValue(name)
		switch g.r.Intn(8) {
		case 0:
			// valueless
		case 1:
			if !strings.ContainsAny(val, " \t\r\n\"'=<>`") && val != "" {
				sb.WriteString("=" + val)
			} else {
				sb.WriteString(`="` + strings.ReplaceAll(val, `"`, "&quot;") + `"`)
			}
		case 2:
			sb.WriteString(`='` + strings.ReplaceAll(val, `'`, "&#39;") + `'`)
		case 3:
			sb.WriteString(` = "` + strings.ReplaceAll(val, `"`, "&quot;") + `"`)
		default:
			sb.WriteString(`="` + strings.ReplaceAll(val, `"`, "&quot;") + `"`)
		}
	}
	if g.r.Bool(0.05) {
		sb.WriteString(" ")
	}
	return sb.String()
}

var commentForms = []string{"<!-- c -->", "<!---->", "<!-->", "<!--->", "<!-- a -- b -->", "<!--[if gte mso 9]><b>x</b><![endif]-->",
	"<!-- <script>alert(1)</script> -->", "<!--x--!>", "<!-- multi\nline -->", "<!- not ->", "<!--", "<!-- unterminated"}
var doctypeForms = []string{"<!DOCTYPE html>", "<!doctype html PUBLIC \"-//W3C//DTD HTML 4.01//EN\">", "<!DOCTYPE>", "<!DOCTYPE html SYSTEM \"<b>\">"}
var cdataForms = []string{"<![CDATA[ x ]]>", "<![CDATA[<b>bold</b>]]>", "<?xml version=\"1.0\"?>", "<?php echo 1 ?>", "<![if !IE]>", "<!ELEMENT x>"}
var garbageForms = []string{"<", "<<", "<a", "</", "</ >", "</>", "<!", "<!-", "<?", "&", "&#", "<a href=\"", "<a href='x", "<a b=c", "<1>", "<a/b>", "</a b>", "<a/ >", "< a>", "<a<b>", "<a>>"}

func (g *inGen) rawContent() string {
	return g.r.Pick([]string{"alert(1)", "var a = '<b>x</b>';", "body{color:red}", "x</scr", "a < b && c > d", "</b>", "<!-- x -->",
		"&amp;", "", "\n", "if (a<b) { </style > }", "<script>", "</textarea", "</titlex>", "\x00"})
}

func (g *inGen) node(depth int) {
	sb := &g.sb
	switch w := g.r.Intn(100); {
	case w < 28:
		sb.WriteString(g.text())
	case w < 58:
		name := g.elName()
		if contains(rawTextEls, name) {
			g.raw(name)
			return
		}
		tag := g.caseMut(name)
		sb.WriteString("<" + tag + g.attrsFor(name) + ">")
		if voidEls[name] {
			return
		}
		if depth < 4 {
			for i, n := 0, g.r.Intn(4); i < n; i++ {
				g.node(depth + 1)
			}
		}
		switch g.r.Intn(12) {
		case 0: // unclosed
		case 1:
			sb.WriteString("</" + g.elName() + ">") // mismatched
		default:
			sb.WriteString("</" + g.caseMut(name) + ">")
		}
	case w < 66:
		sc := g.elName()
		sb.WriteString("<" + g.caseMut(sc) + g.attrsFor(sc) + g.r.Pick([]string{"/>", " />", "/ >"}))
	case w < 73:
		sb.WriteString(g.r.Pick(commentForms))
	case w < 76:
		sb.WriteString(g.r.Pick(doctypeForms))
	case w < 79:
		sb.WriteString(g.r.Pick(cdataForms))
	case w < 88:
		g.raw(g.r.Pick(rawTextEls))
	case w < 93:
		sb.WriteString("</" + g.caseMut(g.elName()) + g.r.Pick([]string{">", " >", " x=y>", "/>"}))
	case w < 96:
		// open and close tags of skip-content elements in odd orders (stray end tag first, nested,
		// unbalanced): the skip counter / flag / stack of the token loop
		els := []string{"object", "iframe", "title", "noscript", "frameset", "noembed", "noframes", "nostyle", "frame", g.elName()}
		for i, n := 0, g.r.Range(2, 6); i < n; i++ {
			x := g.r.Pick(els)
			if g.r.Bool(0.5) {
				sb.WriteString("<" + g.caseMut(x) + ">")
			} else {
				sb.WriteString("</" + g.caseMut(x) + ">")
			}
			sb.WriteString(g.r.Pick([]string{"", "t", "x<b>y</b>", " "}))
		}
	default:
		sb.WriteString(g.r.Pick(garbageForms))
	}
}

func (g *inGen) raw(name string) {
	g.sb.WriteString("<" + g.caseMut(name) + g.attrsFor(name) + ">")
	for i, n := 0, g.r.Intn(3); i < n; i++ {
		g.sb.WriteString(g.rawContent())
	}
	if g.r.Bool(0.85) {
		g.sb.WriteString("</" + g.caseMut(name) + g.r.Pick([]string{">", ">", " >", "\n>"}))
	}
}

func contains(xs []string, s string) bool {
	for _, x := range xs {
		if x == s {
			return true
		}
	}
	return false
}

// GenInput produces one HTML-ish input. maxNodes bounds the size.
func GenInput(r *RNG, v Vocab, maxNodes int) []byte {
	g := &inGen{r: r, v: v}
	switch r.Intn(40) {
	case 0:
		return []byte{}
	case 1:
		return []byte(r.Pick([]string{" ", "\n", "\t \r\n", "   ", "\r", "\f", "\v"}))
	case 2:
		return []byte(r.Pick([]string{"\u00a0", "\u2003\u2003", "\u0085", "\u3000 ", "\u00a0\r", "\r\u0085\n", "\u2028\r\n ", "\v\r", "\r\n\u00a0\r"})) // unicode-only blank: no verdict on "unchanged"
	}
	for i, n := 0, r.Range(1, maxNodes); i < n; i++ {
		g.node(0)
	}
	b := []byte(g.sb.String())
	// mutations
	if len(b) > 0 && r.Bool(0.25) {
		b = b[:r.Intn(len(b)+1)]
	}
	if len(b) > 0 && r.Bool(0.08) {
		for i, n := 0, r.Range(1, 3); i < n; i++ {
			b[r.Intn(len(b))] = byte(r.Intn(256))
		}
	}
	if len(b) > 4 && r.Bool(0.08) {
		i, j := r.Intn(len(b)), r.Intn(len(b))
		if i > j {
			i, j = j, i
		}
		b = append(append(append([]byte{}, b[:j]...), b[i:j]...), b[j:]...)
	}
	return b
}

// GenTargetedInput concatenates a handful of probes derived from the recipe's own rules
// (each element, attribute and style rule with values that hit and miss its matcher - the
// probe builder of the C17 engine), so that every rule of a generated policy is actually
// exercised by some input instead of being met by chance.
func GenTargetedInput(r *RNG, rc Recipe, fresh string, n int) []byte {
	probes := probesFor(r, rc.Ops, fresh)
	var sb strings.Builder
	for i := 0; i < n && len(probes) > 0; i++ {
		sb.Write(probes[r.Intn(len(probes))])
		if r.Bool(0.3) {
			sb.WriteString(r.Pick([]string{" ", "\n", "text", "&amp;"}))
		}
	}
	return []byte(sb.String())
}

// GenManyDistinct produces an input with several hundred DISTINCT URLs, element names and
// style values (plus a few repeats): bounded caches and rings inside the library overflow.
func GenManyDistinct(r *RNG, v Vocab, fresh string) []byte {
	var sb strings.Builder
	n := r.Range(280, 600)
	for i := 0; i < n; i++ {
		k := i
		if r.Bool(0.15) {
			k = r.Intn(i + 1) // a repeat
		}
		switch r.Intn(4) {
		case 0:
			fmt.Fprintf(&sb, `<a href="http://good.example/p/%s-%d">l%d</a>`, fresh, k, k)
		case 1:
			fmt.Fprintf(&sb, `<img src="https://example.org/i/%s/%d.png" alt="i">`, fresh, k)
		case 2:
			fmt.Fprintf(&sb, `<my-n%d title="t">x</my-n%d>`, k, k)
		default:
			fmt.Fprintf(&sb, `<p style="width: %dpx; color: red">p</p>`, k)
		}
	}
	return []byte(sb.String())
}

// GenStyleHeavy produces 60-110 KB of elements that each carry a few inline style declarations:
// per-document budgets and counters of style work.
func GenStyleHeavy(r *RNG, v Vocab) []byte {
	var sb strings.Builder
	target := r.Range(60000, 90000)
	for sb.Len() < target {
		prop := r.Pick(v.StyleProps)
		if len(v.HotProps) > 0 && r.Bool(0.7) {
			prop = r.Pick(v.HotProps)
		}
		fmt.Fprintf(&sb, `<p style="%s: %s; color: red; width: %dpx; text-align: center">t</p>`, prop, r.Pick(v.StyleVals), r.Intn(500))
	}
	return []byte(sb.String())
}

// GenGiantToken produces an input dominated by ONE token of 70 KB - 1.1 MB (text run, attribute
// value, comment, data URI or raw text): size-gated limits and fast paths only show there.
func GenGiantToken(r *RNG, v Vocab) []byte {
	return GenGiantTokenSized(r, v, []int{70000, 300000, 1100000}[r.Intn(3)]+r.Intn(5000))
}

func GenGiantTokenSized(r *RNG, v Vocab, n int) []byte {
	var sb strings.Builder
	sb.WriteString(string(GenInput(r, v, 3)))
	switch r.Intn(5) {
	case 0:
		sb.WriteString("<p>" + strings.Repeat("lorem ipsum ", n/12) + "</p>")
	case 1:
		sb.WriteString(`<a href="http://example.com/` + strings.Repeat("p", n) + `" title="t">l</a>`)
	case 2:
		sb.WriteString("<!-- " + strings.Repeat("c", n) + " -->")
	case 3:
		sb.WriteString(`<img src="data:image/png;base64,` + strings.Repeat("AAAA", n/4) + `" alt="x">`)
	default:
		sb.WriteString("<textarea>" + strings.Repeat("x<y ", n/4) + "</textarea>")
	}
	sb.WriteString(string(GenInput(r, v, 3)))
	return []byte(sb.String())
}

// GenLongInput produces an input of 4-20 KB with (usually) one token that is
// itself longer than the tokenizer's 4096-byte buffer or sits across a
// 4096*2^k boundary, so that the refill-with-live-data path runs.
func GenLongInput(r *RNG, v Vocab) []byte {
	g := &inGen{r: r, v: v}
	target := r.Pick([]string{"4096", "8192", "16384"})
	var tgt int
	fmt.Sscan(target, &tgt)
	pre := tgt - r.Range(0, 60)
	for g.sb.Len() < pre-200 {
		g.node(2)
	}
	for g.sb.Len() < pre {
		g.sb.WriteString("t")
	}
	switch r.Intn(6) {
	case 0:
		g.sb.WriteString(`<a href="http://example.com/` + strings.Repeat("p", r.Range(10, 5000)) + `" title="x">link</a>`)
	case 1:
		g.sb.WriteString("<!-- " + strings.Repeat("c", r.Range(10, 5000)) + " -->")
	case 2:
		g.sb.WriteString(strings.Repeat("&amp;", r.Range(5, 1200)))
	case 3:
		g.sb.WriteString("<script>" + strings.Repeat("x<y;", r.Range(5, 1500)) + "</script>after")
	case 4:
		g.sb.WriteString("<" + g.elName() + g.attrs() + g.attrs() + ">")
	default:
		g.sb.WriteString("<p style=\"" + strings.Repeat("color: red; ", r.Range(5, 500)) + "\">")
	}
	for i, n := 0, r.Range(1, 6); i < n; i++ {
		g.node(1)
	}
	return []byte(g.sb.String())
}
