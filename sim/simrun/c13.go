package main

import (
	"bytes"
	"encoding/json"
	"fmt"
	"io"
	"os"
	"sort"
	"strings"
	"sync"
	"time"

	"github.com/microcosm-cc/bluemonday"
	"github.com/microcosm-cc/bluemonday/verifsim"
)

// C13 — a finished policy is deterministic and safe to share between goroutines.

type C13Op struct {
	Entry  string   `json:"entry"` // Sanitize | SanitizeBytes | SanitizeReader | SanitizeReaderToWriter
	Input  int      `json:"input"` // index into plan.Inputs (inputs are shared between tasks on purpose)
	Read   ReadPlan `json:"read"`
	Writer string   `json:"writer,omitempty"`
	WFault *WFault  `json:"wfault,omitempty"`
}

type MapOrder struct {
	Mode string `json:"mode"` // canonical | reversed | random
	Seed uint64 `json:"seed"`
}

type C13Plan struct {
	Property   string    `json:"property"`
	RunSeed    uint64    `json:"run_seed"`
	Idx        int       `json:"idx"`
	Recipe     Recipe    `json:"recipe"`
	Inputs     [][]byte  `json:"inputs"`
	Tasks      [][]C13Op `json:"tasks"`
	Schedule   []int     `json:"schedule"`
	After      string    `json:"after"`               // prng | first | pct | hold : choices once Schedule is exhausted
	HoldKind   string    `json:"hold_kind,omitempty"` // hold: cb | sync | write | read | map
	PCTDepth   int       `json:"pct_depth,omitempty"`
	Stickiness float64   `json:"stickiness"`
	MapOrder   MapOrder  `json:"map_order"`
	PoolFlush  bool      `json:"pool_flush,omitempty"` // empty sync.Pools at baton hand-over (experiment knob, off: see DESIGN §2.4)
	Fixture    string    `json:"fixture,omitempty"`    // harness canary: racy | clean
}

func genC13(seed uint64, idx int, tier string) interface{} {
	rs := Mix(seed, strTag("C13"), uint64(idx))
	r := NewRNG(rs)
	fresh := fmt.Sprintf("%d", idx)
	opt := GenOpts{Fresh: fresh, WantComments: 0.4, WantSpaces: 0.3, WantUnsafe: 0.2, WantCallback: 0.6, WantPatterns: r.Bool(0.7)}
	pl := &C13Plan{Property: "C13", RunSeed: rs, Idx: idx, After: "prng"}
	pl.Recipe = GenRecipe(r.Fork(1), opt)
	v := VocabOf(pl.Recipe, fresh)
	if r.Bool(0.5) {
		v = v.Themed(r.Fork(7))
	}
	ir := r.Fork(2)
	maxInputs, pLong := 5, 0.04
	if tier == "thorough" {
		maxInputs, pLong = 7, 0.08
	}
	for i, n := 0, r.Range(2, maxInputs); i < n; i++ {
		switch {
		case r.Bool(pLong):
			pl.Inputs = append(pl.Inputs, GenLongInput(ir, v))
		case r.Bool(0.012): // a lot of inline style per document
			pl.Inputs = append(pl.Inputs, GenStyleHeavy(ir, v))
		case r.Bool(0.03): // hundreds of distinct keys: bounded caches overflow
			pl.Inputs = append(pl.Inputs, GenManyDistinct(ir, v, fresh))
		case r.Bool(0.15): // 1-4 KB: size-gated fast paths and pools
			pl.Inputs = append(pl.Inputs, GenInput(ir, v, 60))
		default:
			pl.Inputs = append(pl.Inputs, GenInput(ir, v, 10))
		}
	}
	// one or two inputs aimed at the recipe's own rules
	for i, n := 0, r.Range(1, 2); i < n; i++ {
		pl.Inputs = append(pl.Inputs, GenTargetedInput(r.Fork(uint64(40+i)), pl.Recipe, fresh, r.Range(4, 12)))
	}
	tr := r.Fork(3)
	ntasks := tr.Range(2, 6)
	if tier == "thorough" && tr.Bool(0.2) {
		ntasks = tr.Range(6, 10)
	}
	crowd := tr.Bool(0.04) // many callers at once, one short operation each: limits that count callers in flight
	if crowd {
		ntasks = tr.Range(9, 13)
	}
	faultTask := -1
	if tr.Bool(0.25) {
		faultTask = tr.Intn(ntasks)
	}
	for t := 0; t < ntasks; t++ {
		var ops []C13Op
		nops := tr.Range(1, 4)
		if crowd {
			nops = 1
		}
		for o, n := 0, nops; o < n; o++ {
			op := C13Op{Input: tr.Intn(len(pl.Inputs))}
			in := pl.Inputs[op.Input]
			switch tr.Intn(10) {
			case 0, 1:
				op.Entry = "Sanitize"
			case 2, 3:
				op.Entry = "SanitizeBytes"
			case 4, 5, 6:
				op.Entry = "SanitizeReader"
			default:
				op.Entry = "SanitizeReaderToWriter"
				op.Writer = tr.Pick([]string{"sw", "plain"})
			}
			if op.Entry == "SanitizeReader" || op.Entry == "SanitizeReaderToWriter" {
				op.Read = genChunksCoarse(tr, len(in))
				if t == faultTask && tr.Bool(0.6) {
					if op.Entry == "SanitizeReaderToWriter" && tr.Bool(0.5) {
						op.WFault = &WFault{K: tr.Intn(6), Kind: tr.Pick([]string{"perm", "once", "short", "full"})}
					} else {
						op.Read.Fault = &RFault{At: tr.Intn(len(in) + 1), Kind: tr.Pick(readErrKinds), WithData: tr.Bool(0.5)}
					}
				}
			}
			ops = append(ops, op)
		}
		pl.Tasks = append(pl.Tasks, ops)
	}
	pl.Stickiness = []float64{0, 0.5, 0.9}[r.Intn(3)]
	switch {
	case r.Bool(0.3):
		pl.After = "pct"
		pl.PCTDepth = r.Range(2, 4)
	case r.Bool(0.2) || crowd && r.Bool(0.7):
		pl.After = "hold"
		pl.HoldKind = r.Pick([]string{"cb", "cb", "sync", "write", "map", "read"})
	}
	pl.MapOrder = MapOrder{Mode: []string{"canonical", "reversed", "random", "random"}[r.Intn(4)], Seed: r.U64()}
	// fault kind "callback panics": a caller-supplied URL policy that panics on one host.  Drawn from
	// its own fork after everything else, so every other plan of the stream is unchanged.
	if fr := r.Fork(0xca11bac); fr.Bool(0.06) {
		pl.Recipe.Ops = append(pl.Recipe.Ops,
			Op{K: "AllowAttrs", Names: []string{"href"}, Scope: "els", Els: []string{"a"}},
			Op{K: "AllowURLSchemeWithCustomPolicy", Names: []string{"boom"}, Fn: "panichost=boom.example"},
			Op{K: "AllowURLSchemeWithCustomPolicy", Names: []string{"calm"}, Fn: "host=good.example"})
		pl.Inputs = append(pl.Inputs,
			[]byte(`<p>x <a href="boom://boom.example/p">b</a> y</p>`),
			[]byte(`<p><a href="calm://good.example/p">c</a> <a href="boom://fine.example/q">d</a></p>`))
		nb, nc := len(pl.Inputs)-2, len(pl.Inputs)-1
		// the first operation of one task meets the panic; later operations everywhere reach the callbacks again
		bt := fr.Intn(len(pl.Tasks))
		pl.Tasks[bt][0].Input = nb
		for t := range pl.Tasks {
			last := len(pl.Tasks[t]) - 1
			if t == bt && last == 0 {
				pl.Tasks[t] = append(pl.Tasks[t], pl.Tasks[t][0])
				last = 1
			}
			pl.Tasks[t][last].Input = nc
		}
		for t := range pl.Tasks { // chunk plans and fault offsets were drawn for other input lengths
			for o := range pl.Tasks[t] {
				op := &pl.Tasks[t][o]
				if op.Input == nb || op.Input == nc {
					op.Read, op.WFault = ReadPlan{}, nil
					if op.Entry == "SanitizeReader" || op.Entry == "SanitizeReaderToWriter" {
						op.Read = genChunksCoarse(fr, len(pl.Inputs[op.Input]))
					}
				}
			}
		}
	}
	return pl
}

func holdKindOf(k string) uint32 {
	switch k {
	case "cb":
		return evCallback
	case "sync":
		return evSync
	case "write":
		return evWrite
	case "read":
		return evRead
	case "map":
		return evMap
	}
	return 0
}

// genChunksCoarse bounds the number of Read calls (each is a scheduling point).
func genChunksCoarse(r *RNG, n int) ReadPlan {
	rp := ReadPlan{EOFWithData: r.Bool(0.3), Scribble: r.Bool(0.3)}
	switch r.Intn(5) {
	case 0: // all at once
	case 1:
		if n <= 120 {
			rp.Chunks = make([]int, n)
			for i := range rp.Chunks {
				rp.Chunks[i] = 1
			}
		} else {
			rp.Chunks = []int{r.Range(1, n)}
		}
	default:
		parts := r.Range(2, 12)
		avg := n/parts + 1
		for got := 0; got < n && len(rp.Chunks) < 40; {
			if r.Bool(0.08) {
				rp.Chunks = append(rp.Chunks, 0)
				continue
			}
			c := r.Range(1, 2*avg)
			rp.Chunks = append(rp.Chunks, c)
			got += c
		}
	}
	return rp
}

// ---- task side ----

type opResult struct {
	Out       []byte // private copy taken when the call returned
	ret       []byte // the value the library returned, kept as is (may alias library memory)
	retBuf    *bytes.Buffer
	Err       string
	Panicked  string
	Calls     int
	AfterFail int
}

type taskCtx struct {
	id         int
	reqW, resR int
	p          *bluemonday.Policy
	inputs     [][]byte
	ops        []C13Op
	mapMode    string
	mapSeed    uint64
	mapVisits  uint64
	results    []opResult
	siteVisits map[string]int // visits with >=2 keys
	sitePerms  map[string]map[string]bool
	cbCalls    int
	fixture    string
	held       int // >0: inside a region of library code that holds a lock; never park there
	syncPoints int
	heldSkips  int
}

// tasks is written by the main goroutine before the tasks are started and read
// (index = getCur()) by the hooks, which have no other way to find their task.
var tasks []*taskCtx

// yieldHere parks the task that is *calling* (found through the goroutine id), not the task
// that owns the stream: a library that routes one caller's tokens into another caller's
// destination must show up as a wrong result, not as a broken baton.
func yieldHere(kind string) {
	c := getCur()
	if c < 0 {
		return
	}
	t := tasks[c]
	if t.held > 0 {
		t.heldSkips++
		return
	}
	k := uint32(evRead)
	if kind == "write" {
		k = evWrite
	}
	park(t.reqW, t.resR, t.id, k, 0)
}

func c13CallbackHook(name string) {
	c := getCur()
	if c < 0 {
		return
	}
	t := tasks[c]
	t.cbCalls++
	if t.held > 0 {
		t.heldSkips++
		return
	}
	park(t.reqW, t.resR, t.id, evCallback, strTag(name)&0xffff)
}

// c13SyncHook: every use of sync / sync/atomic inside the library is a scheduling point
// (inserted by the instrumenter), unless the task is inside a lock-holding region.
func c13SyncHook(site string) {
	c := getCur()
	if c < 0 {
		return
	}
	t := tasks[c]
	if t.held > 0 {
		t.heldSkips++
		return
	}
	t.syncPoints++
	park(t.reqW, t.resR, t.id, evSync, strTag(site)&0xffff)
}

func c13HeldHook(delta int) {
	c := getCur()
	if c < 0 {
		return
	}
	t := tasks[c]
	t.held += delta
	if t.held < 0 {
		t.held = 0
	}
}

// map order on the main goroutine: canonical, except while the shared policy is being
// constructed (construction-time lookups must not depend on map order either)
var mainMapMode string
var mainMapSeed, mainMapVisits uint64

func c13OrderHook(site string, n int) []int {
	c := getCur()
	if c < 0 {
		if mainMapMode == "" || n < 2 {
			return nil // main goroutine: canonical order
		}
		mainMapVisits++
		if mainMapMode == "reversed" {
			perm := make([]int, n)
			for i := range perm {
				perm[i] = n - 1 - i
			}
			return perm
		}
		return NewRNG(Mix(mainMapSeed, 0xb111d, mainMapVisits)).Perm(n)
	}
	t := tasks[c]
	if n >= 1 && t.held == 0 {
		park(t.reqW, t.resR, t.id, evMap, strTag(site)&0xffff)
	}
	t.mapVisits++
	if n < 2 {
		return nil
	}
	t.siteVisits[site]++
	var perm []int
	switch t.mapMode {
	case "reversed":
		perm = make([]int, n)
		for i := range perm {
			perm[i] = n - 1 - i
		}
	case "random":
		perm = NewRNG(Mix(t.mapSeed, uint64(t.id), t.mapVisits)).Perm(n)
	default:
		return nil
	}
	if t.sitePerms[site] == nil {
		t.sitePerms[site] = map[string]bool{}
	}
	if len(t.sitePerms[site]) < 64 {
		t.sitePerms[site][fmt.Sprint(perm)] = true
	}
	return perm
}

// fixtureShared is touched only by the harness canary.
var fixtureShared int

func execOp(p *bluemonday.Policy, inputs [][]byte, op C13Op, yield func(string)) (r opResult) {
	in := inputs[op.Input]
	r.Panicked = guarded(func() {
		switch op.Entry {
		case "Sanitize":
			r.ret = []byte(p.Sanitize(string(in)))
		case "SanitizeBytes":
			r.ret = p.SanitizeBytes(in) // shared backing array on purpose
		case "SanitizeReader":
			rd := NewSimReader(in, op.Read)
			rd.yield = yield
			r.retBuf = p.SanitizeReader(rd)
			if r.retBuf != nil {
				r.ret = r.retBuf.Bytes()
			} else {
				r.Err = "nil buffer"
			}
		case "SanitizeReaderToWriter":
			rd := NewSimReader(in, op.Read)
			rd.yield = yield
			w, core := newWriter(op.Writer, op.WFault)
			core.yield = yield
			var wr io.Writer = w
			if err := p.SanitizeReaderToWriter(rd, wr); err != nil {
				r.Err = "error"
			}
			r.ret = core.Accepted
			r.Calls = core.Calls
			r.AfterFail = core.CallsAfterFail
		}
	})
	r.Out = append([]byte{}, r.ret...)
	return
}

func (t *taskCtx) main(wg *sync.WaitGroup) {
	defer wg.Done()
	registerTask(t.id, goid())
	park(t.reqW, t.resR, t.id, evStart, 0)
	for i, op := range t.ops {
		park(t.reqW, t.resR, t.id, evOpStart, uint64(i))
		switch t.fixture {
		case "racy":
			fixtureShared++ // deliberate conflicting access: the canary must see a report
		}
		t.results[i] = execOp(t.p, t.inputs, op, yieldHere)
	}
	finish(t.reqW, t.id)
}

// ---- race report capture ----

var raceLogPath string
var raceLogSeen int64

func raceLogInit() {
	// GORACE log_path=<prefix> makes the runtime write to <prefix>.<pid>
	for _, f := range strings.Fields(os.Getenv("GORACE")) {
		if strings.HasPrefix(f, "log_path=") {
			raceLogPath = fmt.Sprintf("%s.%d", strings.TrimPrefix(f, "log_path="), os.Getpid())
		}
	}
}

// newRaceReports returns the race runtime's output since the last call.
func newRaceReports() string {
	if raceLogPath == "" {
		return ""
	}
	fi, err := os.Stat(raceLogPath)
	if err != nil || fi.Size() <= raceLogSeen {
		return ""
	}
	f, err := os.Open(raceLogPath)
	if err != nil {
		return ""
	}
	defer f.Close()
	buf := make([]byte, fi.Size()-raceLogSeen)
	f.ReadAt(buf, raceLogSeen)
	raceLogSeen = fi.Size()
	return string(buf)
}

// summariseRace keeps the frames of a report that lie in library code.
func summariseRace(rep string) (site string, short string) {
	var frames []string
	for _, l := range strings.Split(rep, "\n") {
		l = strings.TrimSpace(l)
		if strings.Contains(l, "bluemonday") && strings.Contains(l, ".go:") && !strings.Contains(l, "verifsimrun") {
			frames = append(frames, l)
		}
	}
	lines := strings.Split(rep, "\n")
	if len(lines) > 40 {
		lines = lines[:40]
	}
	short = strings.Join(lines, "\n")
	if len(frames) > 0 {
		f := frames[0]
		if i := strings.LastIndex(f, "/"); i >= 0 {
			f = f[i+1:]
		}
		if i := strings.Index(f, " "); i >= 0 {
			f = f[:i]
		}
		site = f
	}
	return
}

var c13BlockMs = 5000

// c13HangMs: silence after which released tasks count as blocked for good (free mode only; the
// unchanged tree never enters free mode).
var c13HangMs = 40000

var c13CanaryDone bool

// c13Canary proves, in this very process, that the baton hides nothing from the
// race runtime (racy fixture must be reported) and adds nothing (clean fixture
// must be silent).
func c13Canary() error {
	if c13CanaryDone || !raceEnabled {
		return nil
	}
	c13CanaryDone = true
	mk := func(fx string) []byte {
		return mustJSON(&C13Plan{Property: "C13", RunSeed: 1, Recipe: Recipe{Base: "new", Ops: []Op{{K: "AllowElements", Names: []string{"b"}}}},
			Inputs: [][]byte{[]byte("<b>x</b>")}, Tasks: [][]C13Op{{{Entry: "Sanitize"}}, {{Entry: "Sanitize"}}}, After: "prng", Fixture: fx})
	}
	newRaceReports()
	if _, err := runC13inner(mk("clean"), true); err != nil {
		return err
	}
	if rep := newRaceReports(); rep != "" {
		return fmt.Errorf("race canary: clean fixture produced a report:\n%s", rep)
	}
	if _, err := runC13inner(mk("racy"), true); err != nil {
		return err
	}
	if rep := newRaceReports(); !strings.Contains(rep, "DATA RACE") {
		return fmt.Errorf("race canary: the deliberately racy fixture was NOT reported; the baton is visible to the race runtime or GORACE log_path is not set (GORACE=%q)", os.Getenv("GORACE"))
	}
	return nil
}

func runC13(planJSON []byte) (*RunResult, error) {
	if err := c13Canary(); err != nil {
		return nil, err
	}
	return runC13inner(planJSON, false)
}

func runC13inner(planJSON []byte, canary bool) (*RunResult, error) {
	var pl C13Plan
	if err := json.Unmarshal(planJSON, &pl); err != nil {
		return nil, err
	}
	res := &RunResult{PlanDigest: digestBytes(planJSON)}
	n := len(pl.Tasks)
	if n == 0 {
		res.Digest = "empty"
		return res, nil
	}
	verifsim.Order = c13OrderHook
	verifsim.YieldHook = c13SyncHook
	verifsim.HeldHook = c13HeldHook
	cbHook = c13CallbackHook
	clearTasks()

	// construction is finished, on this goroutine, before the policy is shared; it runs under the
	// plan's map order, the reference policies are built under the canonical one
	if pl.MapOrder.Mode != "canonical" {
		mainMapMode, mainMapSeed, mainMapVisits = pl.MapOrder.Mode, pl.MapOrder.Seed, 0
	}
	shared := BuildPolicy(pl.Recipe)
	res.count("map_visits_during_construction", int64(mainMapVisits))
	mainMapMode = ""
	inputs := make([][]byte, len(pl.Inputs))
	snaps := make([][]byte, len(pl.Inputs))
	for i, in := range pl.Inputs {
		// spare capacity behind every shared input, to catch writes past len
		backing := append(append([]byte{}, in...), []byte("CANARY")...)
		inputs[i] = backing[:len(in):len(backing)]
		snaps[i] = append([]byte{}, backing...)
	}
	bp, err := newPipes(n)
	if err != nil {
		return nil, err
	}
	defer bp.close()
	tasks = make([]*taskCtx, n)
	for i := range tasks {
		tasks[i] = &taskCtx{id: i, reqW: bp.reqW, resR: bp.resR[i], p: shared, inputs: inputs, ops: pl.Tasks[i],
			mapMode: pl.MapOrder.Mode, mapSeed: pl.MapOrder.Seed, results: make([]opResult, len(pl.Tasks[i])),
			siteVisits: map[string]int{}, sitePerms: map[string]map[string]bool{}, fixture: pl.Fixture}
	}
	sc := &scheduler{bp: bp, n: n, schedule: pl.Schedule, after: pl.After, stick: pl.Stickiness,
		rng: NewRNG(Mix(pl.RunSeed, 0x5c4ed)), stepCap: 6000, pointCount: map[uint32]int{}, poolFlush: pl.PoolFlush, blockMs: c13BlockMs, pctDepth: pl.PCTDepth, pctHorizon: 150, holdKind: holdKindOf(pl.HoldKind)}
	if !canary {
		newRaceReports() // anything older belongs to an earlier run
	}
	var wg sync.WaitGroup
	for i := range tasks {
		wg.Add(1)
		go tasks[i].main(&wg)
	}
	sc.run()
	if sc.hung {
		// Tasks are blocked for good inside the library (they stay parked in this process).  If every
		// one of the operations returns when run alone on a fresh policy, that is a violation.
		clearTasks()
		res.count("runs_hung", 1)
		defer func() { c13HangMs = 8000 }() // this tree hangs: later runs of this process wait less
		soloDone := make(chan bool, 1)
		go func() {
			for _, ops := range pl.Tasks {
				for _, op := range ops {
					cp := make([][]byte, len(pl.Inputs))
					for i, in := range pl.Inputs {
						cp[i] = append([]byte{}, in...)
					}
					execOp(BuildPolicy(pl.Recipe), cp, op, nil)
				}
			}
			soloDone <- true
		}()
		select {
		case <-soloDone:
			res.Violations = append(res.Violations, Violation{Property: "C13", Oracle: "C13/call-never-returns", Site: "Sanitize*",
				Detail: fmt.Sprintf("concurrent Sanitize* calls on the shared policy made no progress for %d s and never returned; each of the same calls alone on a fresh policy returns", c13HangMs/1000),
				Plan:   mustJSON(pl), Observed: "blocked", Expected: "returns"})
		case <-time.After(time.Duration(c13HangMs) * time.Millisecond):
			res.Notes = append(res.Notes, "calls block even alone on a fresh policy (not a C13 matter)")
		}
		res.Digest = "hung"
		return res, nil
	}
	wg.Wait() // happens-before edge from every task's end to the checks below
	clearTasks()
	if canary {
		return res, nil
	}

	realised := append([]int{}, sc.realised...)
	mkPlan := func() json.RawMessage {
		cp := pl
		cp.Schedule = realised
		cp.After = "first"
		return mustJSON(cp)
	}
	viol := func(oracle, site, detail string, obs, exp interface{}) {
		res.Violations = append(res.Violations, Violation{Property: "C13", Oracle: oracle, Site: site, Detail: detail, Plan: mkPlan(), Observed: obs, Expected: exp})
	}

	// oracle 1: the race runtime saw no conflicting access between two calls
	if rep := newRaceReports(); strings.Contains(rep, "DATA RACE") {
		site, short := summariseRace(rep)
		viol("C13/data-race", site, "the Go race runtime reported a conflicting access between concurrent Sanitize* calls on one finished policy (first library frame: "+site+")", short, "no report")
	}

	// oracle 2: every operation = the same operation alone on a fresh policy, canonical map order.
	// The references run AFTER the concurrent phase so that they cannot warm anything up.
	dig := &bytes.Buffer{}
	fmt.Fprintf(dig, "sched %s\n", sc.digest())
	refInputs := make([][]byte, len(pl.Inputs))
	for i, in := range pl.Inputs {
		refInputs[i] = append([]byte{}, in...)
	}
	for ti, t := range tasks {
		for oi, op := range t.ops {
			got := t.results[oi]
			ref := execOp(BuildPolicy(pl.Recipe), refInputs, op, nil)
			res.Evals += 2
			fmt.Fprintf(dig, "t%d.%d %s out=%s err=%q p=%q calls=%d\n", ti, oi, op.Entry, digestBytes(got.Out), got.Err, got.Panicked, got.Calls)
			where := fmt.Sprintf("task %d op %d (%s on input %d)", ti, oi, op.Entry, op.Input)
			if ref.Panicked != "" {
				if got.Panicked == "" {
					viol("C13/result-differs", op.Entry, where+": the solo reference panics ("+ref.Panicked+") but the concurrent call did not", nil, nil)
				} else {
					if strings.Contains(ref.Panicked, "harness callback") {
						res.count("callback_panic_fired", 1) // injected fault: the caller's own callback panicked, alone and shared alike
					} else {
						res.Notes = append(res.Notes, "operation panics even alone (C14 matter): "+ref.Panicked)
					}
				}
				continue
			}
			if got.Panicked != "" {
				viol("C13/panic-under-concurrency", op.Entry, where+" panicked: "+got.Panicked+" (the same call alone does not)", got.Panicked, nil)
				continue
			}
			if !bytes.Equal(got.Out, ref.Out) || got.Err != ref.Err || got.Calls != ref.Calls {
				viol("C13/result-differs", op.Entry, fmt.Sprintf("%s returned %s (err=%q, %d writes); alone on a fresh policy with canonical map order it returns %s (err=%q, %d writes)",
					where, clip(got.Out, 160), got.Err, got.Calls, clip(ref.Out, 160), ref.Err, ref.Calls), string(got.Out), string(ref.Out))
				continue
			}
			// the value handed to the caller must still read the same after all other calls finished
			now := got.ret
			if got.retBuf != nil {
				now = got.retBuf.Bytes()
			}
			if !bytes.Equal(now, got.Out) {
				viol("C13/returned-value-changed-later", op.Entry, fmt.Sprintf("%s: the returned value read %s when the call returned and reads %s after other calls finished",
					where, clip(got.Out, 120), clip(now, 120)), string(now), string(got.Out))
			}
		}
	}

	// shared inputs (including spare capacity) untouched
	for i := range inputs {
		full := inputs[i][:cap(inputs[i])]
		if !bytes.Equal(full, snaps[i]) {
			viol("C13/shared-input-modified", "input", fmt.Sprintf("input %d was modified during the run: %s -> %s", i, clip(snaps[i], 80), clip(full, 80)), string(full), string(snaps[i]))
		}
	}

	// oracle 4: sanitising never changes the policy's later behaviour
	fresh := BuildPolicy(pl.Recipe)
	for i, in := range pl.Inputs {
		var a, b string
		pb := guarded(func() { b = fresh.Sanitize(string(in)) })
		var pa string
		type late struct{ p, out string }
		lateCh := make(chan late, 1)
		go func(in string) {
			var o string
			pp := guarded(func() { o = shared.Sanitize(in) })
			lateCh <- late{pp, o}
		}(string(in))
		select {
		case l := <-lateCh:
			pa, a = l.p, l.out
		case <-time.After(time.Duration(c13HangMs) * time.Millisecond):
			viol("C13/call-never-returns", "Sanitize", fmt.Sprintf("after the concurrent phase Sanitize(input %d) on the shared policy does not return within %d s; on a fresh policy it returns at once", i, c13HangMs/1000), "blocked", b)
			res.count("runs_hung", 1)
			res.Digest = "hung"
			return res, nil
		}
		res.Evals += 2
		if pa != pb || a != b {
			viol("C13/later-behaviour-changed", "Sanitize", fmt.Sprintf("after the concurrent phase the shared policy sanitises input %d to %s, a fresh policy to %s", i, clip([]byte(a), 160), clip([]byte(b), 160)), a, b)
			break
		}
	}

	// reach counters
	res.count("runs", 1)
	res.count("sched_points", int64(len(sc.realised)))
	res.count("context_switches", int64(sc.switches))
	res.count("pool_flushes", int64(sc.flushes))
	for k, v := range sc.pointCount {
		res.count("points."+evNames[k], int64(v))
	}
	res.count("tasks", int64(n))
	res.count("map_order."+pl.MapOrder.Mode, 1)
	if pl.After == "pct" {
		res.count("sched_mode.pct", 1)
	} else if pl.After == "hold" {
		res.count("sched_mode.hold_"+pl.HoldKind, 1)
	} else {
		res.count(fmt.Sprintf("sched_mode.random_stick_%.1f", pl.Stickiness), 1)
	}
	var sites []string
	for _, t := range tasks {
		for s := range t.siteVisits {
			sites = append(sites, s)
		}
		res.count("callbacks", int64(t.cbCalls))
		res.count("library_sync_points", int64(t.syncPoints))
		res.count("points_skipped_lock_held", int64(t.heldSkips))
		for _, op := range t.ops {
			res.count("ops."+op.Entry, 1)
			if op.WFault != nil || op.Read.Fault != nil {
				res.count("ops_with_fault", 1)
			}
		}
	}
	sort.Strings(sites)
	for _, s := range sites {
		for _, t := range tasks {
			if v := t.siteVisits[s]; v > 0 {
				res.count("map_site_visits_ge2keys."+s, int64(v))
				res.count("map_site_perms."+s, int64(len(t.sitePerms[s])))
				t.siteVisits[s] = 0
			}
		}
	}
	if sc.switches >= 1 {
		res.Nontrivial = 1
	}
	if len(sc.realised) >= sc.stepCap {
		res.count("step_cap_hit", 1)
	}
	res.Digest = digestBytes(dig.Bytes())
	if sc.freeMode {
		c13BlockMs = 250 // this tree blocks across scheduling points: do not wait long again
		res.count("free_mode_runs", 1)
		res.Notes = append(res.Notes, "a task blocked while another was parked (lock held across a scheduling point): run continued unserialised")
		res.Digest = "free-mode"
		res.Nontrivial = 0
	}
	return res, nil
}

// shrinkC13: drop tasks -> drop ops -> drop faults -> simplest chunking ->
// canonical map order -> truncate the schedule -> ddmin inputs -> drop recipe ops.
func shrinkC13(planJSON []byte, v Violation, fails func([]byte) *Violation, budget int) []byte {
	var cur C13Plan
	json.Unmarshal(planJSON, &cur)
	best := planJSON
	try := func(c C13Plan) bool {
		if budget <= 0 {
			return false
		}
		budget--
		if got := fails(mustJSON(c)); got != nil {
			best = got.Plan
			// adopt the realised schedule of the failing candidate
			var np C13Plan
			if json.Unmarshal(got.Plan, &np) == nil {
				cur = np
			}
			return true
		}
		return false
	}
	clone := func() C13Plan {
		var c C13Plan
		json.Unmarshal(mustJSON(cur), &c)
		return c
	}
	// tasks (keep at least 2: one task alone is not a concurrency scenario, but try 1 too — "merely an earlier call")
	for i := len(cur.Tasks) - 1; i >= 0 && len(cur.Tasks) > 1; i-- {
		c := clone()
		c.Tasks = append(c.Tasks[:i], c.Tasks[i+1:]...)
		c.Schedule = nil
		c.After = "prng"
		if !try(c) {
			c.After = "first"
			try(c)
		}
	}
	// ops
	for ti := range cur.Tasks {
		for oi := len(cur.Tasks[ti]) - 1; oi >= 0 && len(cur.Tasks[ti]) > 1; oi-- {
			if ti >= len(cur.Tasks) || oi >= len(cur.Tasks[ti]) {
				continue
			}
			c := clone()
			c.Tasks[ti] = append(c.Tasks[ti][:oi], c.Tasks[ti][oi+1:]...)
			c.Schedule = nil
			c.After = "prng"
			try(c)
		}
	}
	// faults and chunk schedules
	for ti := range cur.Tasks {
		for oi := range cur.Tasks[ti] {
			op := cur.Tasks[ti][oi]
			if op.WFault != nil || op.Read.Fault != nil {
				c := clone()
				c.Tasks[ti][oi].WFault = nil
				c.Tasks[ti][oi].Read.Fault = nil
				try(c)
			}
			if len(op.Read.Chunks) > 0 || op.Read.Scribble || op.Read.EOFWithData {
				c := clone()
				c.Tasks[ti][oi].Read = ReadPlan{Fault: c.Tasks[ti][oi].Read.Fault}
				c.Schedule = nil
				c.After = "prng"
				try(c)
			}
		}
	}
	// map order
	if cur.MapOrder.Mode != "canonical" {
		c := clone()
		c.MapOrder.Mode = "canonical"
		if !try(c) && cur.MapOrder.Mode == "random" {
			c.MapOrder.Mode = "reversed"
			try(c)
		}
	}
	// schedule: towards run-to-completion
	{
		c := clone()
		c.Schedule = nil
		c.After = "first"
		if !try(c) {
			for l := len(cur.Schedule) / 2; l > 0; l /= 2 {
				c := clone()
				if l < len(c.Schedule) {
					c.Schedule = c.Schedule[:l]
					c.After = "first"
					if try(c) {
						continue
					}
				}
			}
		}
	}
	// inputs
	for ii := range cur.Inputs {
		ii := ii
		b := ddminBytes(cur.Inputs[ii], func(b []byte) bool {
			c := clone()
			c.Inputs[ii] = b
			return try(c)
		}, &budget)
		_ = b
	}
	// recipe
	shrinkRecipe(cur.Recipe, func(rc Recipe) bool { c := clone(); c.Recipe = rc; return try(c) }, &budget)
	return best
}

func describeC13(plan []byte) string {
	var pl C13Plan
	if json.Unmarshal(plan, &pl) != nil {
		return ""
	}
	ops := 0
	for _, t := range pl.Tasks {
		ops += len(t)
	}
	seq := "interleaving needed: schedule of " + fmt.Sprint(len(pl.Schedule)) + " recorded choices"
	if len(pl.Tasks) == 1 {
		seq = "no concurrency needed: one caller suffices (the ingredient is the map order or the call history)"
	} else if len(pl.Schedule) == 0 && pl.After == "first" {
		seq = "no interleaving needed: tasks run to completion one after the other (an earlier call is enough)"
	}
	return fmt.Sprintf("%d task(s), %d operation(s), map order %s, %s, %d recipe op(s)", len(pl.Tasks), ops, pl.MapOrder.Mode, seq, len(pl.Recipe.Ops))
}

func init() {
	engines["C13"] = &Engine{ID: "C13", Gen: genC13, Run: runC13, Shrink: shrinkC13, Describe: describeC13, CasesQuick: 2000, InProcessShrink: false}
	raceLogInit()
}
