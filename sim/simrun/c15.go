package main

import (
	"bytes"
	"encoding/json"
	"fmt"
	"io"
	"os"
	"os/exec"
	"path/filepath"
	"strings"
	"time"

	"github.com/microcosm-cc/bluemonday"
)

// C15 — all entry points agree, independent of chunking and writer type.
//
// Single caller: the schedule here is the chunk schedule of the source, the
// kind of destination, and (for the CLI tools) how stdin is fed.

type C15Probe struct {
	Entry  string   `json:"entry"` // SanitizeBytes | SanitizeReader | SanitizeReaderToWriter | cli
	Read   ReadPlan `json:"read"`
	Writer string   `json:"writer,omitempty"` // sw | plain | buf | builder
	Trunc  int      `json:"trunc"`            // early EOF after this many bytes; -1: none
	Stdin  string   `json:"stdin,omitempty"`  // cli: "" pipe fed in scheduled chunks | file: a regular file (tool < file)
}

type C15Plan struct {
	Property  string     `json:"property"`
	RunSeed   uint64     `json:"run_seed"`
	Idx       int        `json:"idx"`
	CLI       string     `json:"cli,omitempty"` // sanitise_ugc | sanitise_html_email: recipe is the transcription
	Recipe    Recipe     `json:"recipe"`
	Input     []byte     `json:"input"`
	Schedules []ReadPlan `json:"schedules"`
	Splits    bool       `json:"splits"` // every two-chunk split position (only when len<=256)
	Only      *C15Probe  `json:"only,omitempty"`
}

func genC15(seed uint64, idx int, tier string) interface{} {
	rs := Mix(seed, strTag("C15"), uint64(idx))
	r := NewRNG(rs)
	fresh := fmt.Sprintf("%d", idx)
	pl := &C15Plan{Property: "C15", RunSeed: rs, Idx: idx, Splits: true}
	var v Vocab
	if r.Bool(0.08) {
		pl.CLI = r.Pick([]string{"sanitise_ugc", "sanitise_html_email"})
		pl.Recipe = cliRecipes[pl.CLI]
		v = VocabOf(pl.Recipe, fresh)
		if pl.CLI == "sanitise_html_email" {
			v.Els = append(v.Els, emailVocabEls...)
			v.Attrs = append(v.Attrs, emailVocabAttrs...)
			v.Vals = append(v.Vals, emailVocabVals...)
		}
	} else {
		opt := GenOpts{Fresh: fresh, WantComments: 0.4, WantSpaces: 0.3, WantUnsafe: 0.25, WantCallback: 0.3, WantPatterns: r.Bool(0.3), ZeroBase: 0.04}
		pl.Recipe = GenRecipe(r.Fork(1), opt)
		v = VocabOf(pl.Recipe, fresh)
	}
	ir := r.Fork(2)
	switch {
	case pl.CLI != "" && r.Bool(0.12): // the blank / nearly blank corner of the tools' plumbing
		pl.Input = []byte(r.Pick([]string{"", " ", "\r", "\r\n", "\n\n", "\t \r", "\u00a0", "\u00a0\r", "\r\u0085\n", "\u2028\r\n ", "\v\r", "\r\n\u00a0\r",
			"\u3000\r\u3000", " x ", "\r\nx", "\ufeff", "\ufeff\r\n", "\x00", "\r\x00"}))
	case pl.CLI != "" && r.Bool(0.25): // more than one pipe buffer (64 KiB) of stdin
		var big []byte
		target := r.Range(70000, 200000)
		if r.Bool(0.12) {
			target = r.Range(1100000, 1500000) // beyond a megabyte
		}
		for len(big) < target {
			big = append(big, GenInput(ir, v, 30)...)
		}
		pl.Input = big
	case r.Bool(0.04):
		pl.Input = GenLongInput(ir, v)
	case r.Bool(0.012):
		pl.Input = GenGiantToken(ir, v)
	case r.Bool(0.2):
		pl.Input = GenTargetedInput(ir, pl.Recipe, fresh, r.Range(2, 10))
	case r.Bool(0.5):
		pl.Input = GenInput(ir, v, 4)
	default:
		pl.Input = GenInput(ir, v, 12)
	}
	sr := r.Fork(3)
	n := len(pl.Input)
	pl.Schedules = append(pl.Schedules, ReadPlan{}, ReadPlan{EOFWithData: true})
	nsched := 5
	if tier == "thorough" {
		nsched = 9
	}
	for i := 0; i < nsched; i++ {
		pl.Schedules = append(pl.Schedules, genChunks(sr, n))
	}
	// splits clustered at syntactically interesting offsets
	for i := 0; i < 4 && n > 1; i++ {
		if off := interestingOffset(sr, pl.Input); off > 0 && off < n {
			pl.Schedules = append(pl.Schedules, ReadPlan{Chunks: []int{off, sr.Range(1, 3)}, Scribble: sr.Bool(0.5)})
		}
	}
	if n > 4096 {
		for k := 4096; k < n; k *= 2 {
			d := sr.Range(-3, 3)
			pl.Schedules = append(pl.Schedules, ReadPlan{Chunks: []int{k + d, 1, 1, 1}}, ReadPlan{Chunks: []int{sr.Range(1, 50), k + d}})
		}
	}
	return pl
}

// interestingOffset picks an offset just inside a tag, attribute value,
// entity, comment/CDATA delimiter or raw-text end tag.
func interestingOffset(r *RNG, in []byte) int {
	var cands []int
	for _, mark := range []string{"<", "</", "<!--", "-->", "&", "&#", "=\"", "='", "<![CDATA[", "]]>", "</scr", "</sty", "</tit", "</text", "/>", "\r"} {
		for from := 0; from < len(in); {
			i := bytes.Index(in[from:], []byte(mark))
			if i < 0 {
				break
			}
			cands = append(cands, from+i+r.Range(0, len(mark)+1))
			from += i + 1
			if len(cands) > 200 {
				break
			}
		}
	}
	if len(cands) == 0 {
		return r.Intn(len(in) + 1)
	}
	return cands[r.Intn(len(cands))]
}

func asciiBlank(b []byte) bool {
	for _, c := range b {
		switch c {
		case ' ', '\t', '\n', '\v', '\f', '\r':
		default:
			return false
		}
	}
	return true
}

type callOut struct {
	out      []byte
	err      string
	panicked string
	reads    int
	viaStr   int
}

func guarded(f func()) (p string) {
	defer func() {
		if x := recover(); x != nil {
			p = fmt.Sprint(x)
			if p == "" {
				p = "(panic)"
			}
		}
	}()
	f()
	return ""
}

func callEntry(rc Recipe, in []byte, pr C15Probe) (co callOut) {
	p := BuildPolicy(rc)
	data := in
	if pr.Trunc >= 0 && pr.Trunc <= len(in) {
		data = in[:pr.Trunc]
	}
	switch pr.Entry {
	case "Sanitize":
		co.panicked = guarded(func() { co.out = []byte(p.Sanitize(string(data))) })
	case "SanitizeReader":
		rd := NewSimReader(data, pr.Read)
		co.panicked = guarded(func() {
			if b := p.SanitizeReader(rd); b != nil {
				co.out = b.Bytes()
			} else {
				co.err = "nil buffer"
			}
		})
		co.reads = len(rd.Boundaries)
	case "SanitizeReaderToWriter":
		rd := NewSimReader(data, pr.Read)
		var w io.Writer
		var core *writerCore
		var bb bytes.Buffer
		var sb strings.Builder
		switch pr.Writer {
		case "buf":
			w = &bb
		case "builder":
			w = &sb
		default:
			w, core = newWriter(pr.Writer, nil)
		}
		co.panicked = guarded(func() {
			if err := p.SanitizeReaderToWriter(rd, w); err != nil {
				co.err = err.Error()
			}
		})
		switch pr.Writer {
		case "buf":
			co.out = bb.Bytes()
		case "builder":
			co.out = []byte(sb.String())
		default:
			co.out = core.Accepted
			co.viaStr = core.ViaString
		}
		co.reads = len(rd.Boundaries)
	}
	return
}

func runCLI(tool string, in []byte, chunks []int, mode string) (out []byte, stderr []byte, code int, err error) {
	dir := os.Getenv("VERIF_CLI_DIR")
	if dir == "" {
		return nil, nil, 0, fmt.Errorf("VERIF_CLI_DIR not set: CLI binaries unavailable")
	}
	cmd := exec.Command(filepath.Join(dir, tool))
	var so, se bytes.Buffer
	cmd.Stdout, cmd.Stderr = &so, &se
	var stdin io.WriteCloser
	if mode == "file" || mode == "file-offset" {
		f, e := os.CreateTemp(dir, "stdin-*")
		if e != nil {
			return nil, nil, 0, e
		}
		defer os.Remove(f.Name())
		header := ""
		if mode == "file-offset" { // { read -r subject; tool; } < message : the tool inherits a non-zero offset
			header = "Subject: <b>not part of the document</b>\n"
		}
		f.WriteString(header)
		f.Write(in)
		f.Seek(int64(len(header)), 0)
		defer f.Close()
		cmd.Stdin = f
		stdin = nopWriteCloser{}
		in = nil
	} else {
		var e error
		if stdin, e = cmd.StdinPipe(); e != nil {
			return nil, nil, 0, e
		}
	}
	if e := cmd.Start(); e != nil {
		return nil, nil, 0, e
	}
	go func() {
		pos := 0
		for _, c := range chunks {
			if pos >= len(in) {
				break
			}
			if c <= 0 {
				continue
			}
			end := pos + c
			if end > len(in) {
				end = len(in)
			}
			stdin.Write(in[pos:end])
			pos = end
		}
		if pos < len(in) {
			stdin.Write(in[pos:])
		}
		stdin.Close()
	}()
	done := make(chan error, 1)
	go func() { done <- cmd.Wait() }()
	select {
	case e := <-done:
		if e != nil {
			if ee, ok := e.(*exec.ExitError); ok {
				return so.Bytes(), se.Bytes(), ee.ExitCode(), nil
			}
			return nil, nil, 0, e
		}
	case <-time.After(60 * time.Second):
		cmd.Process.Kill()
		<-done
		return so.Bytes(), se.Bytes(), -1, nil
	}
	return so.Bytes(), se.Bytes(), 0, nil
}

type nopWriteCloser struct{}

func (nopWriteCloser) Write(b []byte) (int, error) { return len(b), nil }
func (nopWriteCloser) Close() error                { return nil }

func runC15(planJSON []byte) (*RunResult, error) {
	var pl C15Plan
	if err := json.Unmarshal(planJSON, &pl); err != nil {
		return nil, err
	}
	if pl.CLI != "" {
		rc, ok := cliRecipes[pl.CLI]
		if !ok {
			return nil, fmt.Errorf("unknown CLI tool %q", pl.CLI)
		}
		pl.Recipe = rc
	}
	res := &RunResult{PlanDigest: digestBytes(mustJSON(pl.Recipe), pl.Input, mustJSON(pl.Schedules), []byte(pl.CLI))}
	dig := &bytes.Buffer{}
	r := NewRNG(Mix(pl.RunSeed, 0xC15))
	in := pl.Input

	viol := func(pr C15Probe, oracle, detail string, obs, exp interface{}) {
		cp := pl
		cp.Only = &pr
		res.Violations = append(res.Violations, Violation{Property: "C15", Oracle: oracle, Site: pr.Entry, Detail: detail,
			Plan: mustJSON(cp), Observed: obs, Expected: exp})
	}

	refs := map[int]callOut{} // Trunc -> Sanitize result
	refFor := func(trunc int) callOut {
		if c, ok := refs[trunc]; ok {
			return c
		}
		c := callEntry(pl.Recipe, in, C15Probe{Entry: "Sanitize", Trunc: trunc})
		res.Evals++
		refs[trunc] = c
		return c
	}

	compare := func(pr C15Probe) {
		data := in
		if pr.Trunc >= 0 && pr.Trunc <= len(in) {
			data = in[:pr.Trunc]
		}
		if strings.TrimSpace(string(data)) == "" {
			res.count("skipped_blank", 1)
			return // blank input: no cross-entry-point claim
		}
		ref := refFor(pr.Trunc)
		co := callEntry(pl.Recipe, in, pr)
		res.Evals++
		fmt.Fprintf(dig, "%s %s t=%d r=%d out=%s err=%q p=%q\n", pr.Entry, pr.Writer, pr.Trunc, co.reads, digestBytes(co.out), co.err, co.panicked)
		if co.reads >= 2 || pr.Writer == "plain" {
			res.Nontrivial++
		}
		if co.reads >= 2 {
			res.count("multi_read_execs", 1)
		}
		if pr.Writer != "" {
			res.count("writer."+pr.Writer, 1)
		}
		if pr.Writer == "plain" && co.viaStr == 0 && len(co.out) > 0 {
			res.count("adapter_path_execs", 1)
		}
		if pr.Trunc >= 0 {
			res.count("early_eof_execs", 1)
		}
		if ref.panicked != "" {
			if co.panicked == "" {
				viol(pr, "C15/panic-differs", "Sanitize panics ("+ref.panicked+") but "+pr.Entry+" does not", nil, nil)
			} else {
				res.Notes = append(res.Notes, "all entry points panic (C14 matter): "+ref.panicked)
			}
			return
		}
		if co.panicked != "" {
			viol(pr, "C15/panic-differs", pr.Entry+" panics ("+co.panicked+") but Sanitize does not", nil, nil)
			return
		}
		if co.err != "" {
			viol(pr, "C15/spurious-error", fmt.Sprintf("%s returned error %q on a fault-free source", pr.Entry, co.err), co.err, nil)
			return
		}
		if !bytes.Equal(co.out, ref.out) {
			viol(pr, "C15/output-differs", fmt.Sprintf("%s (writer=%s, %d reads, trunc=%d) produced %s; Sanitize produced %s",
				pr.Entry, pr.Writer, co.reads, pr.Trunc, clip(co.out, 120), clip(ref.out, 120)), string(co.out), string(ref.out))
		}
	}

	checkBytes := func() {
		// input buffer with spare capacity; neither len nor spare part may change
		spare := []byte("SPARE-CAPACITY-CANARY")
		backing := append(append([]byte{}, in...), spare...)
		b := backing[:len(in):len(backing)]
		snap := append([]byte{}, backing...)
		p := BuildPolicy(pl.Recipe)
		var out []byte
		pan := guarded(func() { out = p.SanitizeBytes(b) })
		res.Evals++
		outCopy := append([]byte{}, out...)
		fmt.Fprintf(dig, "SanitizeBytes out=%s p=%q\n", digestBytes(outCopy), pan)
		pr := C15Probe{Entry: "SanitizeBytes", Trunc: -1}
		if !bytes.Equal(backing, snap) {
			viol(pr, "C15/input-buffer-modified", fmt.Sprintf("SanitizeBytes changed the caller's buffer: %s -> %s", clip(snap, 80), clip(backing, 80)), string(backing), string(snap))
			return
		}
		if asciiBlank(in) {
			res.count("blank_inputs", 1)
			if pan != "" {
				viol(pr, "C15/panic-differs", "SanitizeBytes panics on blank input: "+pan, nil, nil)
			} else if !bytes.Equal(outCopy, in) {
				viol(pr, "C15/blank-not-unchanged", fmt.Sprintf("SanitizeBytes(%s) = %s", clip(in, 40), clip(outCopy, 40)), string(outCopy), string(in))
			}
			return
		}
		if strings.TrimSpace(string(in)) == "" {
			return
		}
		ref := refFor(-1)
		switch {
		case ref.panicked != "" && pan == "":
			viol(pr, "C15/panic-differs", "Sanitize panics but SanitizeBytes does not", nil, nil)
		case ref.panicked == "" && pan != "":
			viol(pr, "C15/panic-differs", "SanitizeBytes panics ("+pan+") but Sanitize does not", nil, nil)
		case ref.panicked == "" && !bytes.Equal(outCopy, ref.out):
			viol(pr, "C15/output-differs", fmt.Sprintf("SanitizeBytes produced %s; Sanitize produced %s", clip(outCopy, 120), clip(ref.out, 120)), string(outCopy), string(ref.out))
		}
	}

	// A result handed to the caller must keep its bytes when the library is used again: a result
	// that silently turns into another document's output is not "identical bytes for the same input".
	checkRetention := func() {
		if strings.TrimSpace(string(in)) == "" {
			return
		}
		filler := []byte(strings.Repeat("<i>zz</i>&amp;", 2+len(in)/6))
		p := BuildPolicy(pl.Recipe)
		q := BuildPolicy(pl.Recipe)
		var r1 []byte
		var r2 *bytes.Buffer
		var c1, c2 []byte
		pan := guarded(func() {
			r1 = p.SanitizeBytes(append([]byte{}, in...))
			c1 = append([]byte{}, r1...)
			r2 = p.SanitizeReader(bytes.NewReader(in))
			if r2 != nil {
				c2 = append([]byte{}, r2.Bytes()...)
			}
			// later, unrelated use of the same and of another policy
			for i := 0; i < 3; i++ {
				p.SanitizeBytes(filler)
				_ = q.Sanitize(string(filler))
				q.SanitizeReader(bytes.NewReader(filler))
				var sink bytes.Buffer
				p.SanitizeReaderToWriter(bytes.NewReader(filler), &sink)
			}
		})
		res.Evals += 14
		res.count("retention_checks", 1)
		if pan != "" {
			return // reported by the per-entry-point comparisons
		}
		pr := C15Probe{Entry: "SanitizeBytes", Trunc: -1}
		if !bytes.Equal(r1, c1) {
			viol(pr, "C15/result-overwritten-by-later-call", fmt.Sprintf("the slice returned by SanitizeBytes read %s when it was returned and reads %s after later, unrelated Sanitize* calls", clip(c1, 100), clip(r1, 100)), string(r1), string(c1))
		}
		if r2 != nil && !bytes.Equal(r2.Bytes(), c2) {
			pr.Entry = "SanitizeReader"
			viol(pr, "C15/result-overwritten-by-later-call", fmt.Sprintf("the buffer returned by SanitizeReader read %s when it was returned and reads %s after later, unrelated Sanitize* calls", clip(c2, 100), clip(r2.Bytes(), 100)), r2.String(), string(c2))
		}
	}

	checkBlankSanitize := func() {
		if !asciiBlank(in) {
			return
		}
		ref := refFor(-1)
		pr := C15Probe{Entry: "Sanitize", Trunc: -1}
		if ref.panicked != "" {
			viol(pr, "C15/panic-differs", "Sanitize panics on blank input: "+ref.panicked, nil, nil)
		} else if !bytes.Equal(ref.out, in) {
			viol(pr, "C15/blank-not-unchanged", fmt.Sprintf("Sanitize(%s) = %s", clip(in, 40), clip(ref.out, 40)), string(ref.out), string(in))
		}
	}

	checkCLI := func(pr C15Probe) error {
		out, se, code, err := runCLI(pl.CLI, in, pr.Read.Chunks, pr.Stdin)
		if err != nil {
			return err
		}
		res.Evals++
		res.Nontrivial++
		res.count("cli_execs."+pl.CLI, 1)
		if pr.Stdin != "" {
			res.count("cli_stdin_regular_"+pr.Stdin, 1)
		}
		fmt.Fprintf(dig, "cli %s out=%s code=%d\n", pl.CLI, digestBytes(out), code)
		ref := refFor(-1)
		if ref.panicked != "" {
			res.Notes = append(res.Notes, "library panics on CLI input (C14 matter)")
			return nil
		}
		switch {
		case code != 0:
			viol(pr, "C15/cli-exit-status", fmt.Sprintf("%s exited %d: %s", pl.CLI, code, tail(se, 200)), code, 0)
		case !bytes.Equal(out, ref.out):
			viol(pr, "C15/cli-output-differs", fmt.Sprintf("%s wrote %s; the documented policy's Sanitize gives %s", pl.CLI, clip(out, 120), clip(ref.out, 120)), string(out), string(ref.out))
		}
		return nil
	}

	if pl.Only != nil {
		pr := *pl.Only
		switch pr.Entry {
		case "SanitizeBytes":
			checkBytes()
			checkRetention()
		case "Sanitize":
			checkBlankSanitize()
		case "cli":
			if err := checkCLI(pr); err != nil {
				return nil, err
			}
		default:
			compare(pr)
		}
		res.Digest = digestBytes(dig.Bytes())
		return res, nil
	}

	checkBlankSanitize()
	checkBytes()
	checkRetention()
	writers := []string{"sw", "plain", "buf", "builder"}
	scheds := pl.Schedules
	big := len(in) > 32768 // stdin-sized inputs exist for the CLI probes; keep the library part light
	if big {
		if len(scheds) > 2 {
			scheds = scheds[:2]
		}
		writers = []string{"plain"}
		res.count("big_inputs", 1)
		if len(in) > 262144 {
			res.count("inputs_over_256KiB", 1)
		}
	}
	for _, s := range scheds {
		compare(C15Probe{Entry: "SanitizeReader", Read: s, Trunc: -1})
		for _, wk := range writers {
			compare(C15Probe{Entry: "SanitizeReaderToWriter", Read: s, Writer: wk, Trunc: -1})
		}
	}
	// exhaustive two-chunk splits
	if pl.Splits && len(in) <= 256 && len(in) >= 2 {
		for i := 1; i < len(in); i++ {
			rp := ReadPlan{Chunks: []int{i}, EOFWithData: i%2 == 0, Scribble: i%3 == 0}
			compare(C15Probe{Entry: "SanitizeReader", Read: rp, Trunc: -1})
			wk := writers[i%2] // sw / plain alternate
			compare(C15Probe{Entry: "SanitizeReaderToWriter", Read: rp, Writer: wk, Trunc: -1})
			res.count("two_chunk_splits", 1)
		}
		res.count("inputs_with_exhaustive_splits", 1)
	}
	// early EOF: the stream's "crash"
	if len(in) > 0 && !big {
		for _, j := range sampleIdx(r, len(in), 24) {
			s := pl.Schedules[r.Intn(len(pl.Schedules))]
			compare(C15Probe{Entry: "SanitizeReader", Read: s, Trunc: j})
			if r.Bool(0.3) {
				compare(C15Probe{Entry: "SanitizeReaderToWriter", Read: s, Writer: "plain", Trunc: j})
			}
		}
	}
	if pl.CLI != "" {
		for i := 0; i < 2; i++ {
			s := pl.Schedules[r.Intn(len(pl.Schedules))]
			mode := ""
			if i == 1 && r.Bool(0.6) {
				mode = r.Pick([]string{"file", "file", "file-offset"})
			}
			if err := checkCLI(C15Probe{Entry: "cli", Read: ReadPlan{Chunks: s.Chunks}, Trunc: -1, Stdin: mode}); err != nil {
				return nil, err
			}
		}
	}
	res.count("cases", 1)
	if len(in) > 4096 {
		res.count("long_inputs", 1)
	}
	res.Digest = digestBytes(dig.Bytes())
	return res, nil
}

func shrinkC15(planJSON []byte, v Violation, fails func([]byte) *Violation, budget int) []byte {
	var pl C15Plan
	json.Unmarshal(planJSON, &pl)
	best := planJSON
	probe := C15Probe{Trunc: -1}
	if pl.Only != nil {
		probe = *pl.Only
	}
	try := func(c C15Plan) bool {
		c.Only = nil
		if got := fails(mustJSON(c)); got != nil {
			best = got.Plan
			return true
		}
		return false
	}
	cur := pl
	cur.Only = nil
	// keep only the failing schedule; drop the early EOF by truncating the input itself
	if probe.Trunc >= 0 && probe.Trunc <= len(cur.Input) {
		c := cur
		c.Input = cur.Input[:probe.Trunc]
		c.Schedules = []ReadPlan{probe.Read}
		budget--
		if try(c) {
			cur = c
		}
	} else {
		c := cur
		c.Schedules = []ReadPlan{probe.Read}
		budget--
		if try(c) {
			cur = c
		}
	}
	for _, simpler := range []ReadPlan{{}, {Chunks: []int{1}}, {Chunks: probe.Read.Chunks}} {
		c := cur
		c.Schedules = []ReadPlan{simpler}
		budget--
		if try(c) {
			cur = c
			break
		}
	}
	cur.Input = ddminBytes(cur.Input, func(b []byte) bool { c := cur; c.Input = b; return try(c) }, &budget)
	if cur.CLI == "" {
		cur.Recipe = shrinkRecipe(cur.Recipe, func(rc Recipe) bool { c := cur; c.Recipe = rc; return try(c) }, &budget)
		cur.Input = ddminBytes(cur.Input, func(b []byte) bool { c := cur; c.Input = b; return try(c) }, &budget)
	}
	try(cur)
	return best
}

func init() {
	engines["C15"] = &Engine{ID: "C15", Gen: genC15, Run: runC15, Shrink: shrinkC15, CasesQuick: 2400, InProcessShrink: true}
}

var _ = bluemonday.NewPolicy
