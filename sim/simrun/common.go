package main

import (
	"bytes"
	"encoding/json"
	"fmt"
	"sort"
)

// Violation is one failed oracle, together with the plan that reproduces it.
type Violation struct {
	Property string          `json:"property"`
	Oracle   string          `json:"oracle"` // violation class, e.g. C16/write-error-swallowed
	Site     string          `json:"site,omitempty"`
	Detail   string          `json:"detail"`
	Plan     json.RawMessage `json:"plan"`
	Observed interface{}     `json:"observed,omitempty"`
	Expected interface{}     `json:"expected,omitempty"`
	// where the exploring worker met it (lets the driver rebuild the plans that ran before it)
	StreamSeed uint64 `json:"stream_seed,omitempty"`
	Idx        int    `json:"idx,omitempty"`
	Shard      int    `json:"shard,omitempty"`
	NShards    int    `json:"nshards,omitempty"`
	GOMAXPROCS int    `json:"gomaxprocs,omitempty"` // setting of the process that saw it (sync.Pool sharing depends on it)
	// plans that must run first, in the same process, for the violation to show
	Prefix []json.RawMessage `json:"prefix,omitempty"`
}

// RunResult is what executing one plan yields.
type RunResult struct {
	Digest     string           `json:"digest"` // digest of everything observable in the run (event log + results)
	PlanDigest string           `json:"plan_digest"`
	Evals      int64            `json:"evals"`      // executions of library entry points
	Nontrivial int64            `json:"nontrivial"` // executions that met the property's non-triviality rule
	Counters   map[string]int64 `json:"counters,omitempty"`
	Violations []Violation      `json:"violations,omitempty"`
	Notes      []string         `json:"notes,omitempty"`
}

func (r *RunResult) count(k string, n int64) {
	if r.Counters == nil {
		r.Counters = map[string]int64{}
	}
	r.Counters[k] += n
}

// Engine is the per-property part of the simulator.
type Engine struct {
	ID string
	// Gen derives plan number idx of the stream `seed` — a pure function.
	Gen func(seed uint64, idx int, tier string) interface{}
	// Run executes a plan (JSON) against the library and applies the oracles.
	Run func(plan []byte) (*RunResult, error)
	// Shrink minimises a failing plan; fails(plan) re-executes a candidate and
	// says whether the same violation class persists.
	Shrink func(plan []byte, v Violation, fails func(cand []byte) *Violation, budget int) []byte
	// Describe summarises the shape of a (minimised) plan for the replay file.
	Describe func(plan []byte) string
	// CasesQuick is the number of plans of the quick tier.
	CasesQuick int
	// InProcessShrink: candidates may be executed inside the driver process.
	InProcessShrink bool
}

var engines = map[string]*Engine{}

func mustJSON(v interface{}) []byte {
	b, err := json.Marshal(v)
	if err != nil {
		panic(err)
	}
	return b
}

func sortedKeysI64(m map[string]int64) []string {
	ks := make([]string, 0, len(m))
	for k := range m {
		ks = append(ks, k)
	}
	sort.Strings(ks)
	return ks
}

func mergeCounters(dst, src map[string]int64) {
	for _, k := range sortedKeysI64(src) {
		dst[k] += src[k]
	}
}

// ddminBytes removes chunks of b while keep(b') stays true.
func ddminBytes(b []byte, keep func([]byte) bool, budget *int) []byte {
	n := 2
	for len(b) >= 1 && *budget > 0 {
		chunk := (len(b) + n - 1) / n
		if chunk == 0 {
			break
		}
		reduced := false
		for start := 0; start < len(b) && *budget > 0; start += chunk {
			end := start + chunk
			if end > len(b) {
				end = len(b)
			}
			cand := append(append([]byte{}, b[:start]...), b[end:]...)
			*budget--
			if keep(cand) {
				b = cand
				if n > 2 {
					n--
				}
				reduced = true
				break
			}
		}
		if !reduced {
			if chunk == 1 {
				break
			}
			n *= 2
			if n > len(b) {
				n = len(b)
			}
		}
	}
	return b
}

func shrinkRecipe(rc Recipe, keep func(Recipe) bool, budget *int) Recipe {
	for changed := true; changed && *budget > 0; {
		changed = false
		for i := len(rc.Ops) - 1; i >= 0 && *budget > 0; i-- {
			cand := Recipe{Base: rc.Base, Ops: append(append([]Op{}, rc.Ops[:i]...), rc.Ops[i+1:]...)}
			*budget--
			if keep(cand) {
				rc = cand
				changed = true
			}
		}
	}
	if rc.Base != "new" && *budget > 0 {
		cand := Recipe{Base: "new", Ops: rc.Ops}
		*budget--
		if keep(cand) {
			rc = cand
		}
	}
	return rc
}

func clip(b []byte, n int) string {
	if len(b) > n {
		return fmt.Sprintf("%q…(%d bytes)", b[:n], len(b))
	}
	return fmt.Sprintf("%q", b)
}

func isPrefix(full, pre []byte) bool { return bytes.HasPrefix(full, pre) }
