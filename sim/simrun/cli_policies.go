package main

// Independent transcription of the two bundled command-line tools' documented
// policies (cmd/sanitise_ugc, cmd/sanitise_html_email) as recipes.  Written from
// the tools' source comments; deliberately NOT imported from the tools, so that
// drift in main.go, a switch of entry point, an added newline or a trimmed
// output all become visible as a disagreement.

var cliRecipes = map[string]Recipe{
	"sanitise_ugc": {Base: "ugc", Ops: []Op{
		{K: "RequireNoFollowOnLinks", B: true},
		{K: "RequireNoFollowOnFullyQualifiedLinks", B: true},
		{K: "AddTargetBlankToFullyQualifiedLinks", B: true},
	}},
	"sanitise_html_email": {Base: "ugc", Ops: []Op{
		{K: "AllowElements", Names: []string{"html", "head", "body", "title"}},
		{K: "AllowAttrs", Names: []string{"type"}, Re: `(?i)^text\/css$`, Scope: "els", Els: []string{"style"}},
		{K: "AllowAttrs", Names: []string{"style"}, Scope: "glob"},
		{K: "AllowElements", Names: []string{"font", "main", "nav", "header", "footer", "kbd", "legend"}},
		{K: "AllowAttrs", Names: []string{"type"}, Re: `(?i)^[a-zA-Z][a-zA-Z-]{1,30}[a-zA-Z]$`, Scope: "els", Els: []string{"button"}},
		{K: "AllowAttrs", Names: []string{"bgcolor", "color"}, Re: emailColor, Scope: "els", Els: []string{"basefont", "font", "hr"}},
		{K: "AllowAttrs", Names: []string{"border"}, Re: "bm:Integer", Scope: "els", Els: []string{"img", "table"}},
		{K: "AllowAttrs", Names: []string{"cellpadding", "cellspacing"}, Re: "bm:Integer", Scope: "els", Els: []string{"table"}},
		{K: "AllowStyling"},
		{K: "AllowDataURIImages"},
		{K: "RequireNoFollowOnLinks", B: true},
		{K: "RequireNoFollowOnFullyQualifiedLinks", B: true},
		{K: "AddTargetBlankToFullyQualifiedLinks", B: true},
	}},
}

// "a valid hex color or name of a web safe color"
const emailColor = `(?i)^(#[0-9a-fA-F]{1,6}|black|silver|gray|white|maroon|red|purple|fuchsia|green|lime|olive|yellow|navy|blue|teal|aqua|orange|aliceblue|antiquewhite|aquamarine|azure|beige|bisque|blanchedalmond|blueviolet|brown|burlywood|cadetblue|chartreuse|chocolate|coral|cornflowerblue|cornsilk|crimson|darkblue|darkcyan|darkgoldenrod|darkgray|darkgreen|darkgrey|darkkhaki|darkmagenta|darkolivegreen|darkorange|darkorchid|darkred|darksalmon|darkseagreen|darkslateblue|darkslategray|darkslategrey|darkturquoise|darkviolet|deeppink|deepskyblue|dimgray|dimgrey|dodgerblue|firebrick|floralwhite|forestgreen|gainsboro|ghostwhite|gold|goldenrod|greenyellow|grey|honeydew|hotpink|indianred|indigo|ivory|khaki|lavender|lavenderblush|lawngreen|lemonchiffon|lightblue|lightcoral|lightcyan|lightgoldenrodyellow|lightgray|lightgreen|lightgrey|lightpink|lightsalmon|lightseagreen|lightskyblue|lightslategray|lightslategrey|lightsteelblue|lightyellow|limegreen|linen|mediumaquamarine|mediumblue|mediumorchid|mediumpurple|mediumseagreen|mediumslateblue|mediumspringgreen|mediumturquoise|mediumvioletred|midnightblue|mintcream|mistyrose|moccasin|navajowhite|oldlace|olivedrab|orangered|orchid|palegoldenrod|palegreen|paleturquoise|palevioletred|papayawhip|peachpuff|peru|pink|plum|powderblue|rosybrown|royalblue|saddlebrown|salmon|sandybrown|seagreen|seashell|sienna|skyblue|slateblue|slategray|slategrey|snow|springgreen|steelblue|tan|thistle|tomato|turquoise|violet|wheat|whitesmoke|yellowgreen|rebeccapurple)$`

// input vocabulary worth feeding the e-mail tool beyond the UGC vocabulary
var emailVocabEls = []string{"html", "head", "body", "title", "style", "font", "main", "nav", "header", "footer", "kbd", "legend",
	"button", "basefont", "hr", "img", "table", "a", "p", "div", "span"}
var emailVocabAttrs = []string{"type", "style", "bgcolor", "color", "border", "cellpadding", "cellspacing", "class", "href", "src", "rel", "target"}
var emailVocabVals = []string{"text/css", "TEXT/CSS", "submit", "red", "#ff00ff", "rebeccapurple", "notacolor", "1", "10", "x1", "cls a b"}
